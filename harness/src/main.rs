//! flipdot-verif: property-based checks for alusch/flipdot (see /verif/DESIGN.md).
//!
//! usage: flipdot-verif <ID> [--tier quick|thorough] [--replay FILE]
//! env:   VERIF_SEED (integer, default 0), VERIF_TIER (quick|thorough), VERIF_WORKERS

use flipdot_verif::engine::{self, Ctx, Tier};
use flipdot_verif::props;

fn main() {
    let args: Vec<String> = std::env::args().collect();
    if args.len() < 2 {
        eprintln!("usage: flipdot-verif <ID> [--tier quick|thorough] [--replay FILE]");
        std::process::exit(2);
    }
    let id = args[1].to_uppercase();
    let mut tier = match std::env::var("VERIF_TIER").ok().as_deref() {
        Some("thorough") => Tier::Thorough,
        _ => Tier::Quick,
    };
    let mut replay: Option<String> = None;
    let mut i = 2;
    while i < args.len() {
        match args[i].as_str() {
            "--tier" => {
                i += 1;
                tier = match args.get(i).map(|s| s.as_str()) {
                    Some("thorough") => Tier::Thorough,
                    Some("quick") => Tier::Quick,
                    other => {
                        eprintln!("bad tier {other:?}");
                        std::process::exit(2);
                    }
                };
            }
            "--first-use-race" => {
                // child mode of props::first_use: only the race, in a process of its own
                engine::install_quiet_panic_hook();
                match props::first_use_race(&id) {
                    Ok(()) => std::process::exit(0),
                    Err(m) => {
                        println!("{m}");
                        std::process::exit(1);
                    }
                }
            }
            "--replay" => {
                i += 1;
                replay = args.get(i).cloned();
            }
            other => {
                eprintln!("unknown argument {other}");
                std::process::exit(2);
            }
        }
        i += 1;
    }
    let seed_in: u64 = std::env::var("VERIF_SEED")
        .ok()
        .and_then(|s| s.trim().parse::<i128>().ok())
        .map(|v| v as u64)
        .unwrap_or(0);

    if !props::ALL.contains(&id.as_str()) {
        eprintln!("unknown property {id}");
        std::process::exit(2);
    }

    engine::install_quiet_panic_hook();

    // overall watchdog: a trip is "inconclusive" (exit 2), never a violation
    let limit = std::env::var("VERIF_WATCHDOG_S")
        .ok()
        .and_then(|s| s.parse::<u64>().ok())
        .unwrap_or(match tier {
            Tier::Quick => 600,
            Tier::Thorough => 3600,
        });
    let wid = id.clone();
    std::thread::spawn(move || {
        std::thread::sleep(std::time::Duration::from_secs(limit));
        println!("INCONCLUSIVE: property={wid} watchdog after {limit} s");
        std::process::exit(2);
    });

    if let Some(path) = replay {
        // on a thread like the workers' (default stack size), so that a case that exhausted a worker's stack does so again
        let rid = id.clone();
        let code = std::thread::spawn(move || props::replay_file(&rid, &path)).join().unwrap_or(2);
        std::process::exit(code);
    }

    engine::clear_inflight(&id);
    let ctx = Ctx::new(&id, tier, seed_in);
    // first use of the library in this process, from many threads at once - before anything else touches it
    props::first_use(&ctx);
    // regression corpus first
    props::replay_corpus(&ctx);
    if !ctx.stopped() {
        props::run(&ctx);
    }
    std::process::exit(ctx.finish());
}

//! Serde-friendly mirror of `Message` for replay files, and the table-driven reference classification.

use flipdot_core::{Address, ChunkCount, Data, Frame, Message, MsgType, Offset};
use serde::{Deserialize, Serialize};

use crate::oracle::table::{self, OPS, STATES};

#[derive(Serialize, Deserialize, Debug, Clone, PartialEq, Eq, Hash)]
pub enum M {
    Data { off: u16, data: Vec<u8> },
    Count(u16),
    Hello(u16),
    Query(u16),
    Goodbye(u16),
    /// address, index into table::STATES
    Report(u16, u8),
    /// address, index into table::OPS
    Req(u16, u8),
    Ack(u16, u8),
    PixelsComplete(u16),
    Unknown { addr: u16, ty: u8, data: Vec<u8> },
}

impl M {
    pub fn to_message(&self) -> Message<'static> {
        match self {
            M::Data { off, data } => Message::SendData(Offset(*off), Data::try_new(data.clone()).expect("<=255")),
            M::Count(n) => Message::DataChunksSent(ChunkCount(*n)),
            M::Hello(a) => Message::Hello(Address(*a)),
            M::Query(a) => Message::QueryState(Address(*a)),
            M::Goodbye(a) => Message::Goodbye(Address(*a)),
            M::Report(a, s) => Message::ReportState(Address(*a), STATES[*s as usize].0),
            M::Req(a, o) => Message::RequestOperation(Address(*a), OPS[*o as usize].0),
            M::Ack(a, o) => Message::AckOperation(Address(*a), OPS[*o as usize].0),
            M::PixelsComplete(a) => Message::PixelsComplete(Address(*a)),
            M::Unknown { addr, ty, data } => Message::Unknown(Frame::new(
                Address(*addr),
                MsgType(*ty),
                Data::try_new(data.clone()).expect("<=255"),
            )),
        }
    }

    pub fn from_message(m: &Message<'_>) -> M {
        match m {
            Message::SendData(o, d) => M::Data { off: o.0, data: d.get().to_vec() },
            Message::DataChunksSent(c) => M::Count(c.0),
            Message::Hello(a) => M::Hello(a.0),
            Message::QueryState(a) => M::Query(a.0),
            Message::Goodbye(a) => M::Goodbye(a.0),
            Message::ReportState(a, s) => M::Report(a.0, table::state_index(*s)),
            Message::RequestOperation(a, o) => M::Req(a.0, table::op_index(*o)),
            Message::AckOperation(a, o) => M::Ack(a.0, table::op_index(*o)),
            Message::PixelsComplete(a) => M::PixelsComplete(a.0),
            Message::Unknown(f) => M::Unknown { addr: f.address().0, ty: f.message_type().0, data: f.data().to_vec() },
            _ => M::Unknown { addr: 0xDEAD, ty: 0xEE, data: b"non-exhaustive variant".to_vec() },
        }
    }

    pub fn is_unknown(&self) -> bool {
        matches!(self, M::Unknown { .. })
    }

    /// The wire frame fields the *table* prescribes for this message (independent of `Frame::from(Message)`).
    pub fn ref_frame(&self) -> (u16, u8, Vec<u8>) {
        match self {
            M::Data { off, data } => (*off, 0, data.clone()),
            M::Count(n) => (*n, 1, vec![]),
            M::Hello(a) => (*a, 2, vec![table::HELLO]),
            M::Query(a) => (*a, 2, vec![table::QUERY]),
            M::Goodbye(a) => (*a, 2, vec![table::GOODBYE]),
            M::Report(a, s) => (*a, 4, vec![STATES[*s as usize].1]),
            M::Req(a, o) => (*a, 3, vec![OPS[*o as usize].1]),
            M::Ack(a, o) => (*a, 5, vec![OPS[*o as usize].2]),
            M::PixelsComplete(a) => (*a, 6, vec![table::PIXELS_COMPLETE]),
            M::Unknown { addr, ty, data } => (*addr, *ty, data.clone()),
        }
    }

    pub fn short(&self) -> String {
        match self {
            M::Data { off, data } => format!("SendData({off:#x},{}B)", data.len()),
            M::Count(n) => format!("DataChunksSent({n})"),
            M::Hello(a) => format!("Hello({a:#x})"),
            M::Query(a) => format!("QueryState({a:#x})"),
            M::Goodbye(a) => format!("Goodbye({a:#x})"),
            M::Report(a, s) => format!("ReportState({a:#x},{})", table::state_name(*s)),
            M::Req(a, o) => format!("Request({a:#x},{})", table::op_name(*o)),
            M::Ack(a, o) => format!("Ack({a:#x},{})", table::op_name(*o)),
            M::PixelsComplete(a) => format!("PixelsComplete({a:#x})"),
            M::Unknown { addr, ty, data } => format!("Unknown(addr={addr:#x},type={ty},{}B)", data.len()),
        }
    }
}

/// What the protocol table says a frame (address, type, data) is.
pub fn ref_classify(addr: u16, ty: u8, data: &[u8]) -> M {
    let unknown = || M::Unknown { addr, ty, data: data.to_vec() };
    if ty == 0 {
        return M::Data { off: addr, data: data.to_vec() };
    }
    if ty == 1 {
        return if data.is_empty() { M::Count(addr) } else { unknown() };
    }
    if data.len() != 1 {
        return unknown();
    }
    let b = data[0];
    match ty {
        2 => match b {
            table::HELLO => M::Hello(addr),
            table::QUERY => M::Query(addr),
            table::GOODBYE => M::Goodbye(addr),
            _ => unknown(),
        },
        3 => match OPS.iter().position(|(_, req, _)| *req == b) {
            Some(i) => M::Req(addr, i as u8),
            None => unknown(),
        },
        4 => match STATES.iter().position(|(_, code)| *code == b) {
            Some(i) => M::Report(addr, i as u8),
            None => unknown(),
        },
        5 => match OPS.iter().position(|(_, _, ack)| *ack == b) {
            Some(i) => M::Ack(addr, i as u8),
            None => unknown(),
        },
        6 => {
            if b == table::PIXELS_COMPLETE {
                M::PixelsComplete(addr)
            } else {
                unknown()
            }
        }
        _ => unknown(),
    }
}

/// All specific (non-Unknown) messages that carry the given address, excluding data chunks.
pub fn all_addressed(addr: u16) -> Vec<M> {
    let mut v = vec![M::Count(addr), M::Hello(addr), M::Query(addr), M::Goodbye(addr), M::PixelsComplete(addr)];
    for s in 0..13u8 {
        v.push(M::Report(addr, s));
    }
    for o in 0..6u8 {
        v.push(M::Req(addr, o));
        v.push(M::Ack(addr, o));
    }
    v
}

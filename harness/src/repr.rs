//! Serde-friendly mirror types for replay files.

//! An instrumented serial device: scripted reads and writes with fault injection, recorded settings,
//! timeouts, byte counts and timestamps. Implements Read + Write + SerialDevice (hence SerialPort).
//! The state is shared through Rc<RefCell<..>> so it stays observable after the port has been moved
//! into a SerialSignBus or an Odk.

use std::cell::RefCell;
use std::io::{self, Read, Write};
use std::rc::Rc;
use std::time::{Duration, Instant};

use serial_core::{BaudRate, CharSize, FlowControl, Parity, PortSettings, SerialDevice, SerialPortSettings, StopBits};

#[derive(Debug, Clone, Copy, PartialEq, Eq)]
pub enum WriteStep {
    /// accept at most this many bytes
    Accept(usize),
    Interrupted,
    /// Ok(0): the sink accepts nothing
    Zero,
    Error(io::ErrorKind),
}

#[derive(Debug, Clone, Copy, PartialEq, Eq)]
pub enum ReadStep {
    /// serve at most this many bytes
    Serve(usize),
    Interrupted,
    Error(io::ErrorKind),
}

#[derive(Debug, Clone, Copy, PartialEq, Eq)]
pub enum Exhausted {
    /// Ok(0), like a Cursor at its end
    Eof,
    /// Err(TimedOut), like a real port whose read timeout expired
    TimedOut,
}

#[derive(Debug, Clone)]
pub struct CallRecord {
    pub started: Instant,
    pub offered: usize,
    pub result: Result<usize, io::ErrorKind>,
    pub at: Instant,
}

#[derive(Debug)]
pub struct PortState {
    pub settings: PortSettings,
    pub timeout: Option<Duration>,
    pub settings_reads: usize,
    pub settings_writes: Vec<PortSettings>,
    pub timeouts_set: Vec<Duration>,
    pub fail_read_settings: Option<serial_core::ErrorKind>,
    pub fail_set_baud: Option<serial_core::ErrorKind>,
    pub fail_write_settings: Option<serial_core::ErrorKind>,
    pub fail_set_timeout: Option<serial_core::ErrorKind>,
    /// None = the injected failures are permanent; Some(n) = only the first n failing calls fail (a transient fault)
    pub fail_budget: Option<usize>,
    /// how many injected configuration failures were actually returned to the caller
    pub failures_fired: usize,
    /// the settings object reports no baud rate (like a TTY with split input/output speeds)
    pub hide_baud: bool,

    pub written: Vec<u8>,
    pub write_calls: Vec<CallRecord>,
    pub write_script: Vec<WriteStep>,
    pub flush_calls: usize,

    pub tape: Vec<u8>,
    pub pos: usize,
    pub read_calls: Vec<CallRecord>,
    pub read_script: Vec<ReadStep>,
    pub on_exhausted: Exhausted,
    /// order of I/O calls: b'w' / b'r'
    pub order: Vec<u8>,
    /// a spinning implementation is stopped here with a hard error
    pub call_cap: usize,
    pub cap_hit: bool,
    /// a slow line: every write()/read() call blocks for this long before it returns
    /// every flush() call fails with this kind
    pub fail_flush: Option<io::ErrorKind>,
    pub write_block: Option<Duration>,
    pub read_block: Option<Duration>,
    /// the sink implements write_vectored itself and gathers across the slices it is offered (like a file or socket);
    /// false = only write() is implemented and write_vectored is std's default (first non-empty slice)
    pub gather: bool,
    /// a fixed-rate adapter: settings writes are accepted but the device keeps (and reports) this baud rate
    pub pinned_baud: Option<BaudRate>,
    /// a driver that re-initialises the device on every settings write, which puts the read timeout back to this default
    pub settings_write_resets_timeout: Option<Duration>,
}

pub fn weird_settings() -> PortSettings {
    PortSettings {
        baud_rate: BaudRate::Baud110,
        char_size: CharSize::Bits7,
        parity: Parity::ParityEven,
        stop_bits: StopBits::Stop2,
        flow_control: FlowControl::FlowSoftware,
    }
}

impl PortState {
    /// consume one unit of the failure budget; false = the budget is used up, the call succeeds
    fn may_fail(&mut self) -> bool {
        match self.fail_budget.as_mut() {
            None => true,
            Some(0) => false,
            Some(n) => {
                *n -= 1;
                true
            }
        }
    }

    fn fire(&mut self) {
        self.failures_fired += 1;
    }

    pub fn new(tape: Vec<u8>) -> Self {
        PortState {
            settings: weird_settings(),
            timeout: None,
            settings_reads: 0,
            settings_writes: vec![],
            timeouts_set: vec![],
            fail_read_settings: None,
            fail_set_baud: None,
            fail_write_settings: None,
            fail_set_timeout: None,
            fail_budget: None,
            failures_fired: 0,
            hide_baud: false,
            written: vec![],
            write_calls: vec![],
            write_script: vec![],
            flush_calls: 0,
            tape,
            pos: 0,
            read_calls: vec![],
            read_script: vec![],
            on_exhausted: Exhausted::Eof,
            order: vec![],
            call_cap: 100_000,
            cap_hit: false,
            fail_flush: None,
            write_block: None,
            read_block: None,
            gather: false,
            pinned_baud: None,
            settings_write_resets_timeout: None,
        }
    }
}

#[derive(Debug, Clone)]
pub struct TestPort {
    pub st: Rc<RefCell<PortState>>,
}

thread_local! {
    /// state handles of the ports created through `TestPort::default()` on this thread (a bus or bridge built from a
    /// default port owns the port; this is how a check can still look at it)
    pub static DEFAULT_PORTS: RefCell<Vec<Rc<RefCell<PortState>>>> = const { RefCell::new(Vec::new()) };
}

/// A port fresh out of the box: none of the settings is what the signs need.
impl Default for TestPort {
    fn default() -> Self {
        let p = TestPort::new(vec![]);
        p.st.borrow_mut().settings = weird_settings();
        DEFAULT_PORTS.with(|d| d.borrow_mut().push(p.handle()));
        p
    }
}

impl TestPort {
    pub fn new(tape: Vec<u8>) -> Self {
        TestPort { st: Rc::new(RefCell::new(PortState::new(tape))) }
    }
    pub fn with_state(state: PortState) -> Self {
        TestPort { st: Rc::new(RefCell::new(state)) }
    }
    pub fn handle(&self) -> Rc<RefCell<PortState>> {
        self.st.clone()
    }
}

impl Read for TestPort {
    fn read(&mut self, buf: &mut [u8]) -> io::Result<usize> {
        let started = Instant::now();
        let mut s = self.st.borrow_mut();
        let call = s.read_calls.len();
        s.order.push(b'r');
        if call >= s.call_cap {
            s.cap_hit = true;
            return Err(io::Error::new(io::ErrorKind::Other, "harness call cap reached (implementation spins)"));
        }
        let step = s.read_script.get(call).copied().unwrap_or(ReadStep::Serve(usize::MAX));
        let result: Result<usize, io::ErrorKind> = match step {
            ReadStep::Interrupted => Err(io::ErrorKind::Interrupted),
            ReadStep::Error(k) => Err(k),
            ReadStep::Serve(max) => {
                let avail = s.tape.len() - s.pos;
                if buf.is_empty() {
                    Ok(0)
                } else if avail == 0 {
                    match s.on_exhausted {
                        Exhausted::Eof => Ok(0),
                        Exhausted::TimedOut => Err(io::ErrorKind::TimedOut),
                    }
                } else {
                    let n = buf.len().min(avail).min(max.max(1));
                    let pos = s.pos;
                    buf[..n].copy_from_slice(&s.tape[pos..pos + n]);
                    s.pos += n;
                    Ok(n)
                }
            }
        };
        if let Some(d) = s.read_block {
            std::thread::sleep(d);
        }
        s.read_calls.push(CallRecord { started, offered: buf.len(), result, at: Instant::now() });
        result.map_err(|k| io::Error::new(k, "injected read fault"))
    }
}

impl Write for TestPort {
    fn write_vectored(&mut self, bufs: &[io::IoSlice<'_>]) -> io::Result<usize> {
        if self.st.borrow().gather {
            let all: Vec<u8> = bufs.iter().flat_map(|b| b.iter().copied()).collect();
            self.write(&all)
        } else {
            let first = bufs.iter().find(|b| !b.is_empty()).map(|b| &**b).unwrap_or(&[][..]);
            self.write(first)
        }
    }

    fn write(&mut self, buf: &[u8]) -> io::Result<usize> {
        let started = Instant::now();
        let mut s = self.st.borrow_mut();
        let call = s.write_calls.len();
        s.order.push(b'w');
        if call >= s.call_cap {
            s.cap_hit = true;
            return Err(io::Error::new(io::ErrorKind::Other, "harness call cap reached (implementation spins)"));
        }
        let step = s.write_script.get(call).copied().unwrap_or(WriteStep::Accept(usize::MAX));
        let result: Result<usize, io::ErrorKind> = match step {
            WriteStep::Interrupted => Err(io::ErrorKind::Interrupted),
            WriteStep::Error(k) => Err(k),
            WriteStep::Zero => Ok(0),
            WriteStep::Accept(max) => {
                let n = buf.len().min(max.max(1));
                s.written.extend_from_slice(&buf[..n]);
                Ok(n)
            }
        };
        if let Some(d) = s.write_block {
            std::thread::sleep(d);
        }
        s.write_calls.push(CallRecord { started, offered: buf.len(), result, at: Instant::now() });
        result.map_err(|k| io::Error::new(k, "injected write fault"))
    }

    fn flush(&mut self) -> io::Result<()> {
        let mut s = self.st.borrow_mut();
        s.flush_calls += 1;
        match s.fail_flush {
            Some(k) => Err(io::Error::new(k, "injected flush fault")),
            None => Ok(()),
        }
    }
}

/// Settings object whose baud-rate setter can be made to fail.
#[derive(Debug, Clone)]
pub struct TestSettings {
    pub inner: PortSettings,
    pub fail_baud: Option<serial_core::ErrorKind>,
    pub hide_baud: bool,
    /// back-reference so that a refused set_baud_rate is counted as a fired failure
    pub baud_failures: Rc<RefCell<PortState>>,
}

impl SerialPortSettings for TestSettings {
    fn baud_rate(&self) -> Option<BaudRate> {
        if self.hide_baud {
            None
        } else {
            self.inner.baud_rate()
        }
    }
    fn char_size(&self) -> Option<CharSize> {
        self.inner.char_size()
    }
    fn parity(&self) -> Option<Parity> {
        self.inner.parity()
    }
    fn stop_bits(&self) -> Option<StopBits> {
        self.inner.stop_bits()
    }
    fn flow_control(&self) -> Option<FlowControl> {
        self.inner.flow_control()
    }
    fn set_baud_rate(&mut self, baud_rate: BaudRate) -> serial_core::Result<()> {
        if let Some(k) = self.fail_baud {
            // (the port state is not borrowed while reconfigure runs the closure)
            if let Ok(mut st) = self.baud_failures.try_borrow_mut() {
                st.failures_fired += 1;
            }
            return Err(serial_core::Error::new(k, "injected set_baud_rate fault"));
        }
        self.inner.set_baud_rate(baud_rate)
    }
    fn set_char_size(&mut self, char_size: CharSize) {
        self.inner.set_char_size(char_size)
    }
    fn set_parity(&mut self, parity: Parity) {
        self.inner.set_parity(parity)
    }
    fn set_stop_bits(&mut self, stop_bits: StopBits) {
        self.inner.set_stop_bits(stop_bits)
    }
    fn set_flow_control(&mut self, flow_control: FlowControl) {
        self.inner.set_flow_control(flow_control)
    }
}

impl SerialDevice for TestPort {
    type Settings = TestSettings;

    fn read_settings(&self) -> serial_core::Result<TestSettings> {
        let mut s = self.st.borrow_mut();
        s.settings_reads += 1;
        if let Some(k) = s.fail_read_settings.filter(|_| s.may_fail()) {
            s.fire();
            return Err(serial_core::Error::new(k, "injected read_settings fault"));
        }
        let fail_baud = s.fail_set_baud.filter(|_| s.may_fail());
        let mut inner = s.settings;
        if let Some(b) = s.pinned_baud {
            inner.baud_rate = b;
        }
        Ok(TestSettings { inner, fail_baud, hide_baud: s.hide_baud, baud_failures: self.st.clone() })
    }

    fn write_settings(&mut self, settings: &TestSettings) -> serial_core::Result<()> {
        let mut s = self.st.borrow_mut();
        if let Some(k) = s.fail_write_settings.filter(|_| s.may_fail()) {
            s.fire();
            return Err(serial_core::Error::new(k, "injected write_settings fault"));
        }
        s.settings = settings.inner;
        s.settings_writes.push(settings.inner);
        if let Some(d) = s.settings_write_resets_timeout {
            s.timeout = Some(d);
        }
        Ok(())
    }

    fn timeout(&self) -> Duration {
        self.st.borrow().timeout.unwrap_or(Duration::from_millis(0))
    }

    fn set_timeout(&mut self, timeout: Duration) -> serial_core::Result<()> {
        let mut s = self.st.borrow_mut();
        if let Some(k) = s.fail_set_timeout.filter(|_| s.may_fail()) {
            s.fire();
            return Err(serial_core::Error::new(k, "injected set_timeout fault"));
        }
        s.timeout = Some(timeout);
        s.timeouts_set.push(timeout);
        Ok(())
    }

    fn set_rts(&mut self, _: bool) -> serial_core::Result<()> {
        Ok(())
    }
    fn set_dtr(&mut self, _: bool) -> serial_core::Result<()> {
        Ok(())
    }
    fn read_cts(&mut self) -> serial_core::Result<bool> {
        Ok(false)
    }
    fn read_dsr(&mut self) -> serial_core::Result<bool> {
        Ok(false)
    }
    fn read_ri(&mut self) -> serial_core::Result<bool> {
        Ok(false)
    }
    fn read_cd(&mut self) -> serial_core::Result<bool> {
        Ok(false)
    }
}

//! Instrumented implementations of the I/O traits flipdot is generic over.
pub mod port;

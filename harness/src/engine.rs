//! Shared machinery: run context, per-worker statistics, proptest driver, parallel helpers,
//! panic capture, known-findings handling, evidence and replay writers.

use std::collections::{BTreeMap, HashSet};
use std::fmt::Debug;
use std::hash::{Hash, Hasher};
use std::panic::{self, AssertUnwindSafe};
use std::path::{Path, PathBuf};
use std::sync::atomic::{AtomicBool, AtomicU64, Ordering};
use std::sync::Mutex;
use std::time::Instant;

use proptest::strategy::Strategy;
use proptest::test_runner::{Config, RngAlgorithm, TestCaseError, TestError, TestRng, TestRunner};
use serde::Serialize;
use serde_json::{json, Map, Value};

/// base directory for evidence/, out/, corpus/ and KNOWN_FINDINGS.txt; the registered checks use /verif,
/// background soak runs point VERIF_DIR at their snapshot so that they do not touch the committed evidence
pub fn verif_dir() -> String {
    std::env::var("VERIF_DIR").ok().filter(|s| !s.is_empty()).unwrap_or_else(|| "/verif".to_string())
}

#[derive(Clone, Copy, PartialEq, Eq, Debug)]
pub enum Tier {
    Quick,
    Thorough,
}

impl Tier {
    pub fn name(self) -> &'static str {
        match self {
            Tier::Quick => "quick",
            Tier::Thorough => "thorough",
        }
    }
    /// pick by tier
    pub fn pick<T>(self, quick: T, thorough: T) -> T {
        match self {
            Tier::Quick => quick,
            Tier::Thorough => thorough,
        }
    }
}

/// A stable 64-bit hash.
pub fn h64<T: Hash + ?Sized>(t: &T) -> u64 {
    // DefaultHasher::new() uses fixed keys, so the value is the same in every process
    let mut h = std::collections::hash_map::DefaultHasher::new();
    t.hash(&mut h);
    h.finish()
}

const DISTINCT_CAP: usize = 4_000_000;
const SAMPLE_CAP: usize = 6;

/// Per-worker statistics, merged into the context when the worker is done.
#[derive(Default)]
pub struct Stats {
    pub evals: u64,
    distinct: HashSet<u64>,
    distinct_by_construction: u64,
    distinct_saturated: bool,
    classes: BTreeMap<String, u64>,
    samples: Vec<Value>,
    pub excluded_known: u64,
}

impl Stats {
    pub fn new() -> Self {
        Self::default()
    }
    /// one oracle evaluation
    #[inline]
    pub fn eval(&mut self) {
        self.evals += 1;
    }
    #[inline]
    pub fn evals(&mut self, n: u64) {
        self.evals += n;
    }
    /// a non-trivial case identified by a hash (distinctness measured through a hash set)
    #[inline]
    pub fn nontrivial(&mut self, id: u64) {
        if self.distinct.len() < DISTINCT_CAP {
            self.distinct.insert(id);
        } else {
            self.distinct_saturated = true;
        }
    }
    /// non-trivial cases that are distinct by construction (an enumeration that never repeats)
    #[inline]
    pub fn nontrivial_enumerated(&mut self, n: u64) {
        self.distinct_by_construction += n;
    }
    #[inline]
    pub fn class(&mut self, name: &str) {
        self.class_n(name, 1);
    }
    pub fn class_n(&mut self, name: &str, n: u64) {
        if let Some(c) = self.classes.get_mut(name) {
            *c += n;
        } else {
            self.classes.insert(name.to_string(), n);
        }
    }
    pub fn want_sample(&self) -> bool {
        self.samples.len() < SAMPLE_CAP
    }
    pub fn sample(&mut self, v: Value) {
        if self.samples.len() < SAMPLE_CAP {
            self.samples.push(v);
        }
    }
}

#[derive(Clone, Debug)]
pub struct Failure {
    pub part: String,
    pub case: Value,
    pub message: String,
}

pub struct Known {
    pub property: String,
    pub signature: String,
    pub text: String,
}

pub struct Ctx {
    pub id: String,
    pub tier: Tier,
    pub seed: u64,
    pub workers: usize,
    pub start: Instant,
    pub stop: AtomicBool,
    evals: AtomicU64,
    merged: Mutex<Merged>,
    failures: Mutex<Vec<Failure>>,
    pub known: Vec<Known>,
    known_hits: Mutex<BTreeMap<String, u64>>,
    pub inconclusive: Mutex<Vec<String>>,
}

#[derive(Default)]
struct Merged {
    distinct: HashSet<u64>,
    distinct_by_construction: u64,
    saturated: bool,
    classes: BTreeMap<String, u64>,
    samples: BTreeMap<String, Vec<Value>>,
    extra: Map<String, Value>,
    excluded_known: u64,
    parts: Vec<Value>,
    exhaustive_parts: Vec<String>,
    sampled_parts: Vec<String>,
}

impl Ctx {
    pub fn new(id: &str, tier: Tier, seed: u64) -> Self {
        let workers = std::env::var("VERIF_WORKERS")
            .ok()
            .and_then(|s| s.parse().ok())
            .unwrap_or_else(|| std::thread::available_parallelism().map(|n| n.get()).unwrap_or(8));
        Ctx {
            id: id.to_string(),
            tier,
            seed,
            workers,
            start: Instant::now(),
            stop: AtomicBool::new(false),
            evals: AtomicU64::new(0),
            merged: Mutex::new(Merged::default()),
            failures: Mutex::new(vec![]),
            known: load_known(id),
            known_hits: Mutex::new(BTreeMap::new()),
            inconclusive: Mutex::new(vec![]),
        }
    }

    pub fn stopped(&self) -> bool {
        self.stop.load(Ordering::Relaxed)
    }

    /// VERIF_ONLY_PART=<substring> restricts a run to matching parts (used for sensitivity experiments only)
    pub fn part_enabled(&self, part: &str) -> bool {
        match std::env::var("VERIF_ONLY_PART") {
            Ok(p) if !p.is_empty() => part.contains(&p),
            _ => true,
        }
    }

    /// Merge a worker's statistics; `part` names the sub-check for the sample grouping.
    pub fn merge(&self, part: &str, s: Stats) {
        self.evals.fetch_add(s.evals, Ordering::Relaxed);
        let mut m = self.merged.lock().unwrap();
        for d in s.distinct {
            if m.distinct.len() < 4 * DISTINCT_CAP {
                m.distinct.insert(d);
            } else {
                m.saturated = true;
            }
        }
        m.saturated |= s.distinct_saturated;
        m.distinct_by_construction += s.distinct_by_construction;
        m.excluded_known += s.excluded_known;
        for (k, v) in s.classes {
            *m.classes.entry(k).or_insert(0) += v;
        }
        let e = m.samples.entry(part.to_string()).or_default();
        for v in s.samples {
            if e.len() < SAMPLE_CAP {
                e.push(v);
            }
        }
    }

    pub fn class_count(&self, name: &str) -> u64 {
        self.merged.lock().unwrap().classes.get(name).copied().unwrap_or(0)
    }

    pub fn extra(&self, key: &str, v: Value) {
        self.merged.lock().unwrap().extra.insert(key.to_string(), v);
    }

    pub fn extra_add(&self, key: &str, n: u64) {
        let mut m = self.merged.lock().unwrap();
        let cur = m.extra.get(key).and_then(|v| v.as_u64()).unwrap_or(0);
        m.extra.insert(key.to_string(), json!(cur + n));
    }

    /// Record that a part ran, with a short description of what it covered.
    pub fn part_done(&self, part: &str, exhaustive: bool, detail: Value) {
        let mut m = self.merged.lock().unwrap();
        m.parts.push(json!({"part": part, "exhaustive": exhaustive, "detail": detail}));
        if exhaustive {
            m.exhaustive_parts.push(part.to_string());
        } else {
            m.sampled_parts.push(part.to_string());
        }
    }

    /// Report a failing case. Returns true if it is a *new* violation (not a listed known finding).
    pub fn fail(&self, part: &str, case: Value, message: String) -> bool {
        // known findings are keyed on an exact signature that the check puts at the start of the message:
        // "sig=<signature>; text"
        if let Some(sig) = message.strip_prefix("sig=").and_then(|r| r.split(';').next()) {
            if self.known.iter().any(|k| k.signature == sig) {
                *self.known_hits.lock().unwrap().entry(sig.to_string()).or_insert(0) += 1;
                return false;
            }
        }
        self.stop.store(true, Ordering::Relaxed);
        self.failures.lock().unwrap().push(Failure {
            part: part.to_string(),
            case,
            message,
        });
        true
    }

    pub fn is_known_sig(&self, sig: &str) -> bool {
        self.known.iter().any(|k| k.signature == sig)
    }

    pub fn note_known_hit(&self, sig: &str) {
        *self.known_hits.lock().unwrap().entry(sig.to_string()).or_insert(0) += 1;
    }

    pub fn inconclusive(&self, why: String) {
        self.inconclusive.lock().unwrap().push(why);
    }

    pub fn failures(&self) -> Vec<Failure> {
        self.failures.lock().unwrap().clone()
    }

    /// Write evidence, print verdict lines, return the exit code.
    pub fn finish(&self) -> i32 {
        let wall = self.start.elapsed().as_secs_f64();
        let failures = self.failures();
        let inconclusive = self.inconclusive.lock().unwrap().clone();
        let m = self.merged.lock().unwrap();
        let evals = self.evals.load(Ordering::Relaxed);
        let distinct = m.distinct.len() as u64 + m.distinct_by_construction;

        let mut samples: Vec<Value> = vec![];
        for (part, list) in &m.samples {
            for v in list.iter().take(3) {
                samples.push(json!({"part": part, "case": v}));
            }
        }
        if samples.is_empty() {
            for f in failures.iter().take(3) {
                samples.push(json!({"part": f.part, "case": f.case, "failing": true}));
            }
        }
        let known_hits = self.known_hits.lock().unwrap().clone();
        let mut coverage = Map::new();
        coverage.insert("evaluations".into(), json!(evals));
        coverage.insert("distinct_nontrivial".into(), json!(distinct));
        coverage.insert(
            "distinct_counting".into(),
            json!(if m.saturated {
                "hash set saturated: distinct_nontrivial is a lower bound"
            } else {
                "hash set of case identities plus enumerations that are distinct by construction"
            }),
        );
        coverage.insert("rule".into(), json!(crate::props::rule(&self.id)));
        coverage.insert("samples".into(), Value::Array(samples));
        coverage.insert("classes".into(), json!(m.classes));
        coverage.insert("parts".into(), Value::Array(m.parts.clone()));
        let all_exhaustive = m.sampled_parts.is_empty() && !m.exhaustive_parts.is_empty();
        coverage.insert("exhaustive".into(), json!(all_exhaustive));
        coverage.insert("exhaustive_parts".into(), json!(m.exhaustive_parts));
        coverage.insert("sampled_parts".into(), json!(m.sampled_parts));
        coverage.insert("excluded_known_finding_cases".into(), json!(m.excluded_known));
        coverage.insert(
            "known_findings".into(),
            json!(self
                .known
                .iter()
                .map(|k| json!({"signature": k.signature, "text": k.text, "hits_this_run": known_hits.get(&k.signature).copied().unwrap_or(0)}))
                .collect::<Vec<_>>()),
        );
        for (k, v) in &m.extra {
            coverage.insert(k.clone(), v.clone());
        }
        if !inconclusive.is_empty() {
            coverage.insert("inconclusive".into(), json!(inconclusive));
        }

        let ev = json!({
            "property_id": self.id,
            "tier": self.tier.name(),
            "seed": self.seed,
            "level": "exploration",
            "coverage": Value::Object(coverage),
            "assumptions": crate::props::assumptions(&self.id),
            "wall_s": (wall * 1000.0).round() / 1000.0,
            "violations": failures.len(),
        });
        let evdir = Path::new(&verif_dir()).join("evidence");
        let _ = std::fs::create_dir_all(&evdir);
        let evpath = evdir.join(format!("{}.json", self.id));
        if let Err(e) = std::fs::write(&evpath, serde_json::to_string_pretty(&ev).unwrap() + "\n") {
            eprintln!("cannot write evidence {}: {e}", evpath.display());
            return 2;
        }

        for k in &self.known {
            println!("KNOWN-FINDING: property={} {}", self.id, k.text);
        }
        println!(
            "{} tier={} seed={} evaluations={} distinct_nontrivial={} wall_s={:.1}",
            self.id,
            self.tier.name(),
            self.seed,
            evals,
            distinct,
            wall
        );
        if !failures.is_empty() {
            // one VIOLATION line per distinct part (first failure of each)
            let mut seen = HashSet::new();
            for f in &failures {
                if !seen.insert(f.part.clone()) {
                    continue;
                }
                let path = write_replay(&self.id, f);
                println!("  failing part: {}  message: {}", f.part, f.message);
                println!("VIOLATION property={} replay={}", self.id, path.display());
            }
            return 1;
        }
        if evals == 0 || distinct < 2 {
            println!("INCONCLUSIVE: property={} explored nothing (evaluations={evals}, distinct_nontrivial={distinct})", self.id);
            return 2;
        }
        if !inconclusive.is_empty() {
            for i in &inconclusive {
                println!("INCONCLUSIVE: {i}");
            }
            return 2;
        }
        println!("OK property={} held on everything explored", self.id);
        0
    }
}

pub fn write_replay(id: &str, f: &Failure) -> PathBuf {
    let dir = Path::new(&verif_dir()).join("out").join("replays");
    let _ = std::fs::create_dir_all(&dir);
    let body = json!({"property": id, "part": f.part, "case": f.case, "message": f.message});
    let text = serde_json::to_string_pretty(&body).unwrap() + "\n";
    let name = format!("{}-{}-{:016x}.json", id, f.part, h64(&text));
    let path = dir.join(name);
    let _ = std::fs::write(&path, text);
    path
}

// ---------------------------------------------------------------------------------------
// cases that may kill the process (stack exhaustion, abort): a breadcrumb on disk while they run
//
// A panic is caught in-process. A stack overflow or an abort inside flipdot is not: the process dies and nothing can
// be written any more. Checks therefore announce a *heavy* case (deep recursion potential: thousands of messages to one
// object) in `out/inflight/` before running it and withdraw the announcement afterwards. If the process dies, `./check`
// replays every announcement that is left in a fresh process; one that kills that process too is reported as the
// violation, with the breadcrumb as the replay file.

pub struct Inflight(Option<PathBuf>);

impl Drop for Inflight {
    fn drop(&mut self) {
        if let Some(p) = self.0.take() {
            let _ = std::fs::remove_file(p);
        }
    }
}

/// Announce a heavy case. `case` is only evaluated (serialised) here, so callers gate on their own cheap test first.
pub fn inflight(id: &str, part: &str, case: impl FnOnce() -> Value) -> Inflight {
    static NEXT: AtomicU64 = AtomicU64::new(0);
    thread_local! {
        static SLOT: u64 = NEXT.fetch_add(1, Ordering::Relaxed);
    }
    if std::env::var_os("VERIF_NO_INFLIGHT").is_some() {
        return Inflight(None);
    }
    let dir = Path::new(&verif_dir()).join("out").join("inflight");
    let _ = std::fs::create_dir_all(&dir);
    let slot = SLOT.with(|s| *s);
    let path = dir.join(format!("{id}-{}-{slot}.json", std::process::id()));
    let body = json!({"property": id, "part": part, "case": case(), "message": "in flight when the process died"});
    match std::fs::write(&path, serde_json::to_string(&body).unwrap_or_default()) {
        Ok(()) => Inflight(Some(path)),
        Err(_) => Inflight(None),
    }
}

/// Remove breadcrumbs of earlier runs of this property (called once at start-up, not on --replay).
pub fn clear_inflight(id: &str) {
    let dir = Path::new(&verif_dir()).join("out").join("inflight");
    if let Ok(rd) = std::fs::read_dir(dir) {
        for e in rd.flatten() {
            if e.file_name().to_string_lossy().starts_with(&format!("{id}-")) {
                let _ = std::fs::remove_file(e.path());
            }
        }
    }
}

fn load_known(id: &str) -> Vec<Known> {
    let path = Path::new(&verif_dir()).join("KNOWN_FINDINGS.txt");
    let text = std::fs::read_to_string(path).unwrap_or_default();
    let mut out = vec![];
    for line in text.lines() {
        let line = line.trim();
        // known: property=C12 signature=<sig> free text
        if let Some(rest) = line.strip_prefix("known:") {
            let rest = rest.trim();
            let mut it = rest.splitn(3, ' ');
            let p = it.next().unwrap_or("");
            let s = it.next().unwrap_or("");
            let t = it.next().unwrap_or("");
            if let (Some(p), Some(s)) = (p.strip_prefix("property="), s.strip_prefix("signature=")) {
                if p == id {
                    out.push(Known {
                        property: p.to_string(),
                        signature: s.to_string(),
                        text: format!("signature={s} {t}"),
                    });
                }
            }
        }
    }
    out
}

// ---------------------------------------------------------------------------------------
// panic capture

thread_local! {
    static LAST_PANIC: std::cell::RefCell<Option<String>> = const { std::cell::RefCell::new(None) };
}

/// Install a panic hook that prints nothing and remembers message + location per thread.
pub fn install_quiet_panic_hook() {
    panic::set_hook(Box::new(|info| {
        let msg = if let Some(s) = info.payload().downcast_ref::<&str>() {
            s.to_string()
        } else if let Some(s) = info.payload().downcast_ref::<String>() {
            s.clone()
        } else {
            "<non-string panic payload>".to_string()
        };
        let loc = info
            .location()
            .map(|l| format!("{}:{}", l.file(), l.line()))
            .unwrap_or_default();
        // (try_with: the hook may run while the thread's locals are being torn down)
        let text = format!("{msg} @ {loc}");
        if LAST_PANIC.try_with(|p| *p.borrow_mut() = Some(text.clone())).is_err() {
            if let Ok(mut g) = LAST_PANIC_LATE.lock() {
                *g = Some(text);
            }
        }
    }));
}

static LAST_PANIC_LATE: Mutex<Option<String>> = Mutex::new(None);

/// Run `f`; Err(description) if it panicked.
pub fn catch<T>(f: impl FnOnce() -> T) -> Result<T, String> {
    match panic::catch_unwind(AssertUnwindSafe(f)) {
        Ok(v) => Ok(v),
        Err(_) => Err(LAST_PANIC
            .try_with(|p| p.borrow_mut().take())
            .ok()
            .flatten()
            .or_else(|| LAST_PANIC_LATE.lock().ok().and_then(|mut g| g.take()))
            .unwrap_or_else(|| "panic".to_string())),
    }
}

// ---------------------------------------------------------------------------------------
// compile-time probe (autoref specialisation): `(&DefaultProbe::<T>(PhantomData)).make()` is Some(T::default()) if the
// tree under test implements Default for T and None otherwise - the harness compiles against both
pub struct DefaultProbe<T>(pub std::marker::PhantomData<T>);
pub trait ViaDefault<T> {
    fn make(&self) -> Option<T>;
}
impl<T: Default> ViaDefault<T> for DefaultProbe<T> {
    fn make(&self) -> Option<T> {
        Some(T::default())
    }
}
pub trait NoDefault<T> {
    fn make(&self) -> Option<T>;
}
impl<T> NoDefault<T> for &DefaultProbe<T> {
    fn make(&self) -> Option<T> {
        None
    }
}


/// Run `probe` while the calling thread is unwinding from an unrelated panic (inside the destructor of a guard, as an
/// application object that says goodbye in its Drop does). Code that asks `std::thread::panicking()` behaves
/// differently there. The outer panic is caught here; the probe's own panics are caught inside the destructor and
/// reported as Err. Returns what the probe returned.
pub fn while_unwinding<T: Send + 'static>(probe: impl FnOnce() -> T + Send + 'static) -> Result<T, String> {
    struct Guard<T, F: FnOnce() -> T>(Option<F>, std::sync::Arc<Mutex<Option<Result<T, String>>>>);
    impl<T, F: FnOnce() -> T> Drop for Guard<T, F> {
        fn drop(&mut self) {
            if let Some(f) = self.0.take() {
                let r = catch(f);
                if let Ok(mut slot) = self.1.lock() {
                    *slot = Some(r);
                }
            }
        }
    }
    let slot = std::sync::Arc::new(Mutex::new(None));
    let s2 = slot.clone();
    let _ = catch(move || -> () {
        let _guard = Guard(Some(probe), s2);
        panic!("unrelated panic (harness): the probe runs while this one unwinds");
    });
    let r = slot.lock().map_err(|_| "harness: result slot poisoned".to_string())?.take();
    r.unwrap_or_else(|| Err("the probe did not run".into()))
}

/// Run `probe` inside the destructor of a thread-local value while a thread shuts down. The thread first creates that
/// value, then runs `warm` (which uses the library, so that any per-thread state of the library is created *after* the
/// value and therefore destroyed *before* it), then exits. A library that works from a global context works here too;
/// one that keeps per-thread state of its own finds it gone. Ok(()) = the probe ran and returned Ok.
pub fn in_thread_teardown(
    warm: impl FnOnce() + Send + 'static,
    probe: impl FnOnce() -> Result<(), String> + Send + 'static,
) -> Result<(), String> {
    type Probe = Box<dyn FnOnce() -> Result<(), String> + Send>;
    struct Guard(Option<(Probe, std::sync::mpsc::Sender<Result<(), String>>)>);
    impl Drop for Guard {
        fn drop(&mut self) {
            if let Some((probe, tx)) = self.0.take() {
                let r = match catch(probe) {
                    Ok(r) => r,
                    Err(p) => Err(format!("panic while the thread's locals were being destroyed: {p}")),
                };
                let _ = tx.send(r);
            }
        }
    }
    thread_local! {
        static GUARD: std::cell::RefCell<Guard> = const { std::cell::RefCell::new(Guard(None)) };
    }
    let (tx, rx) = std::sync::mpsc::channel();
    let probe: Probe = Box::new(probe);
    let handle = std::thread::spawn(move || {
        GUARD.with(|g| g.borrow_mut().0 = Some((probe, tx)));
        warm();
    });
    let joined = handle.join();
    match rx.recv_timeout(std::time::Duration::from_secs(20)) {
        Ok(r) => r,
        Err(_) => Err(format!("the probe inside the thread-local destructor never reported (thread join: {})", if joined.is_ok() { "ok" } else { "panicked" })),
    }
}

// ---------------------------------------------------------------------------------------
// drivers

fn seed_bytes(seed: u64, part: &str, worker: usize) -> [u8; 32] {
    let mut out = [0u8; 32];
    for i in 0..4 {
        let v = h64(&(seed, part, worker as u64, i as u64));
        out[i * 8..i * 8 + 8].copy_from_slice(&v.to_le_bytes());
    }
    out
}

pub fn make_runner(seed: u64, part: &str, worker: usize, cases: u32, max_shrink_iters: u32) -> TestRunner {
    let config = Config {
        cases,
        failure_persistence: None,
        max_shrink_iters,
        // shrinking (not the verdict) is also bounded in wall-clock time: a failing case whose re-evaluation is
        // expensive must still be reported well before the watchdog; only the minimality of the replay suffers
        max_shrink_time: 20_000,
        max_global_rejects: 1_000_000,
        max_local_rejects: 1_000_000,
        verbose: 0,
        ..Config::default()
    };
    TestRunner::new_with_rng(config, TestRng::from_seed(RngAlgorithm::ChaCha, &seed_bytes(seed, part, worker)))
}

/// Run `total_cases` generated cases of `strategy` through `check`, split over the context's workers.
/// `check` gets the case and the worker's statistics and returns Err(message) on a violation.
/// The first failure of each worker is shrunk by proptest; the shrunk case is reported.
pub fn run_generated<S, F>(ctx: &Ctx, part: &str, total_cases: u64, make_strategy: impl Fn() -> S + Sync, check: F)
where
    S: Strategy,
    S::Value: Serialize + Debug + Clone,
    F: Fn(&S::Value, &mut Stats) -> Result<(), String> + Sync,
{
    run_generated_n(ctx, part, total_cases, ctx.workers, make_strategy, check)
}

pub fn run_generated_n<S, F>(ctx: &Ctx, part: &str, total_cases: u64, workers: usize, make_strategy: impl Fn() -> S + Sync, check: F)
where
    S: Strategy,
    S::Value: Serialize + Debug + Clone,
    F: Fn(&S::Value, &mut Stats) -> Result<(), String> + Sync,
{
    run_generated_opts(ctx, part, total_cases, workers, 20_000, make_strategy, check)
}

/// `max_shrink_iters` bounds the shrinking effort (cases that sleep are expensive to re-run)
pub fn run_generated_opts<S, F>(
    ctx: &Ctx,
    part: &str,
    total_cases: u64,
    workers: usize,
    max_shrink_iters: u32,
    make_strategy: impl Fn() -> S + Sync,
    check: F,
) where
    S: Strategy,
    S::Value: Serialize + Debug + Clone,
    F: Fn(&S::Value, &mut Stats) -> Result<(), String> + Sync,
{
    if ctx.stopped() || !ctx.part_enabled(part) {
        return;
    }
    let workers = workers.max(1);
    let per = ((total_cases + workers as u64 - 1) / workers as u64).max(1) as u32;
    std::thread::scope(|sc| {
        for w in 0..workers {
            let check = &check;
            let make_strategy = &make_strategy;
            sc.spawn(move || {
                let mut runner = make_runner(ctx.seed, part, w, per, max_shrink_iters);
                let strategy = make_strategy();
                let stats = std::cell::RefCell::new(Stats::new());
                let scratch = std::cell::RefCell::new(Stats::new());
                let failed = std::cell::Cell::new(false);
                let result = runner.run(&strategy, |case| {
                    if ctx.stopped() && !failed.get() {
                        // another worker found a violation: finish quickly
                        return Ok(());
                    }
                    // after the first failure the closure is re-run for shrinking: do not count those
                    let mut guard = if failed.get() { scratch.borrow_mut() } else { stats.borrow_mut() };
                    let st: &mut Stats = &mut guard;
                    let r = match catch(|| check(&case, st)) {
                        Ok(r) => r,
                        Err(p) => Err(format!("harness-visible panic: {p}")),
                    };
                    match r {
                        Ok(()) => Ok(()),
                        Err(msg) => {
                            // known finding? then it is not a failure and the search continues
                            if let Some(sig) = msg.strip_prefix("sig=").and_then(|r| r.split(';').next()) {
                                if ctx.is_known_sig(sig) {
                                    if !failed.get() {
                                        ctx.note_known_hit(sig);
                                        st.excluded_known += 1;
                                    }
                                    return Ok(());
                                }
                            }
                            if !failed.get() {
                                // tell the other workers at once: they stop generating while this one shrinks
                                ctx.stop.store(true, Ordering::Relaxed);
                            }
                            failed.set(true);
                            Err(TestCaseError::fail(msg))
                        }
                    }
                });
                let stats = stats.into_inner();
                match result {
                    Ok(()) => {}
                    Err(TestError::Fail(reason, value)) => {
                        let case = serde_json::to_value(&value).unwrap_or_else(|_| json!(format!("{value:?}")));
                        ctx.fail(part, case, reason.message().to_string());
                    }
                    Err(TestError::Abort(reason)) => {
                        ctx.inconclusive(format!("{part}: proptest aborted: {}", reason.message()));
                    }
                }
                ctx.merge(part, stats);
            });
        }
    });
    ctx.part_done(part, false, json!({"generated_cases": per as u64 * workers as u64, "workers": workers}));
}

/// Run `f(index, &mut Stats)` for index in 0..n in parallel (work-stealing by atomic counter).
/// `f` returns Err((case, message)) on a violation.
pub fn par_range<F>(ctx: &Ctx, part: &str, n: u64, f: F)
where
    F: Fn(u64, &mut Stats) -> Result<(), (Value, String)> + Sync,
{
    if ctx.stopped() || !ctx.part_enabled(part) {
        return;
    }
    let next = AtomicU64::new(0);
    std::thread::scope(|sc| {
        for _ in 0..ctx.workers {
            let f = &f;
            let next = &next;
            sc.spawn(move || {
                let mut stats = Stats::new();
                loop {
                    if ctx.stopped() {
                        break;
                    }
                    let i = next.fetch_add(1, Ordering::Relaxed);
                    if i >= n {
                        break;
                    }
                    let r = match catch(|| f(i, &mut stats)) {
                        Ok(r) => r,
                        Err(p) => Err((json!({"index": i}), format!("harness-visible panic: {p}"))),
                    };
                    if let Err((case, msg)) = r {
                        if ctx.fail(part, case, msg) {
                            break;
                        } else {
                            stats.excluded_known += 1;
                        }
                    }
                }
                ctx.merge(part, stats);
            });
        }
    });
}

/// Map a generated 16-bit selector monotonically onto 0..len (so shrinking the selector shrinks the index).
#[inline]
pub fn pick_idx(sel: u16, len: usize) -> usize {
    ((sel as usize) * len) >> 16
}

pub fn hex(bytes: &[u8]) -> String {
    let mut s = String::with_capacity(bytes.len() * 2);
    for b in bytes {
        s.push_str(&format!("{b:02X}"));
    }
    s
}

/// Printable rendering of a byte string for samples and replay messages.
pub fn show_bytes(bytes: &[u8]) -> String {
    let mut s = String::new();
    for &b in bytes {
        match b {
            b'\r' => s.push_str("\\r"),
            b'\n' => s.push_str("\\n"),
            b'\\' => s.push_str("\\\\"),
            0x20..=0x7e => s.push(b as char),
            _ => s.push_str(&format!("\\x{b:02x}")),
        }
    }
    s
}

// ---------------------------------------------------------------------------------------
// logging: flipdot uses the `log` macros; their arguments are only evaluated (and Display impls only run) when a
// logger is installed and the level is enabled. Selected parts are repeated with a silent logger at Trace level.

struct SilentLogger;

struct NullSink;
impl std::fmt::Write for NullSink {
    fn write_str(&mut self, _: &str) -> std::fmt::Result {
        Ok(())
    }
}

impl log::Log for SilentLogger {
    fn enabled(&self, _: &log::Metadata<'_>) -> bool {
        true
    }
    fn log(&self, record: &log::Record<'_>) {
        // format the record (this runs the Display impls of the arguments) and throw the text away
        let _ = std::fmt::write(&mut NullSink, *record.args());
    }
    fn flush(&self) {}
}

static LOGGER: SilentLogger = SilentLogger;

/// Run `f` with logging enabled at Trace level (process-wide; parts run one after the other, so this is deterministic).
pub fn with_logging<T>(f: impl FnOnce() -> T) -> T {
    let _ = log::set_logger(&LOGGER);
    log::set_max_level(log::LevelFilter::Trace);
    let r = f();
    log::set_max_level(log::LevelFilter::Off);
    r
}

//! Frozen copy of the protocol code table (message type / data length / first data byte), transcribed once.
//! Indices into STATES / OPS are what replay files store.

use flipdot_core::{Operation, State};

/// (state, wire code in a type-4 frame)
pub const STATES: [(State, u8); 13] = [
    (State::Unconfigured, 0x0F),
    (State::ConfigInProgress, 0x0D),
    (State::ConfigReceived, 0x07),
    (State::ConfigFailed, 0x0C),
    (State::PixelsInProgress, 0x03),
    (State::PixelsReceived, 0x01),
    (State::PixelsFailed, 0x0B),
    (State::PageLoaded, 0x10),
    (State::PageLoadInProgress, 0x13),
    (State::PageShown, 0x12),
    (State::PageShowInProgress, 0x11),
    (State::ShowingPages, 0x00),
    (State::ReadyToReset, 0x08),
];

/// (operation, request code in a type-3 frame, acknowledgement code in a type-5 frame)
pub const OPS: [(Operation, u8, u8); 6] = [
    (Operation::ReceiveConfig, 0xA1, 0x95),
    (Operation::ReceivePixels, 0xA2, 0x91),
    (Operation::ShowLoadedPage, 0xA9, 0x96),
    (Operation::LoadNextPage, 0xAA, 0x97),
    (Operation::StartReset, 0xA6, 0x93),
    (Operation::FinishReset, 0xA7, 0x94),
];

pub const HELLO: u8 = 0xFF;
pub const QUERY: u8 = 0x00;
pub const GOODBYE: u8 = 0x55;
pub const PIXELS_COMPLETE: u8 = 0x00;

pub fn state_index(s: State) -> u8 {
    STATES.iter().position(|(x, _)| *x == s).expect("state in table") as u8
}
pub fn op_index(o: Operation) -> u8 {
    OPS.iter().position(|(x, _, _)| *x == o).expect("operation in table") as u8
}
pub fn state_name(i: u8) -> String {
    format!("{:?}", STATES[i as usize].0)
}
pub fn op_name(i: u8) -> String {
    format!("{:?}", OPS[i as usize].0)
}

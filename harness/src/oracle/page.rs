//! Reference page layout, written from the C07 statement / the Page documentation:
//! [id, 0x10, 0, 0], then width * ceil(height/8) data bytes (column-major, LSB at the top),
//! then 0xFF padding up to the next multiple of 16 bytes.

pub fn bpc(h: u32) -> usize {
    let h = h as usize;
    h / 8 + if h % 8 != 0 { 1 } else { 0 }
}

pub fn data_len(w: u32, h: u32) -> usize {
    4 + w as usize * bpc(h)
}

pub fn total_len(w: u32, h: u32) -> usize {
    let d = data_len(w, h);
    // next multiple of 16 (closed form: the dimensions may be astronomically large)
    if d % 16 == 0 {
        d
    } else {
        d + (16 - d % 16)
    }
}

/// (byte index, bit index) of pixel (x, y) on a page of height h
pub fn bit_pos(x: u32, y: u32, h: u32) -> (usize, u8) {
    (4 + x as usize * bpc(h) + (y / 8) as usize, (y % 8) as u8)
}

pub fn new_bytes(id: u8, w: u32, h: u32) -> Vec<u8> {
    let mut v = vec![id, 0x10, 0, 0];
    v.resize(data_len(w, h), 0);
    v.resize(total_len(w, h), 0xFF);
    v
}

/// read pixel (x,y) out of raw page bytes according to the layout
pub fn read_pixel(bytes: &[u8], x: u32, y: u32, h: u32) -> bool {
    let (b, bit) = bit_pos(x, y, h);
    bytes[b] & (1 << bit) != 0
}

/// mask of the bits of data byte `index` (>= 4, < data_len) that belong to real pixels
pub fn pixel_mask(index: usize, h: u32) -> u8 {
    let bpc = bpc(h);
    if bpc == 0 {
        return 0;
    }
    let within = (index - 4) % bpc; // which byte of the column
    let first_row = within * 8;
    let rows_here = (h as usize).saturating_sub(first_row).min(8);
    if rows_here >= 8 {
        0xFF
    } else {
        ((1u16 << rows_here) - 1) as u8
    }
}

pub const REAL_SIZES: [(u32, u32); 11] = [
    (112, 16),
    (98, 16),
    (90, 7),
    (30, 10),
    (23, 10),
    (30, 7),
    (160, 16),
    (140, 16),
    (96, 8),
    (48, 16),
    (40, 12),
];

//! Reference controller: the documented controller-side protocol as an explicit simulation over a list of
//! replies (C10), and the conversation invariants of C11 evaluated on a transcript alone.

use serde::{Deserialize, Serialize};

use crate::oracle::vsign::*;
use crate::repr::M;

#[derive(Serialize, Deserialize, Debug, Clone, PartialEq, Eq, Hash)]
pub enum Reply {
    Msg(M),
    None,
    BusError,
    /// only in scripts: "reply with exactly the message that was just sent" (a line echo); the scripted bus
    /// resolves it to Msg(..) before anything is judged
    Echo,
    /// only in scripts: the reply that would let the protocol continue, but handed over as a hand-built unknown-frame
    /// wrapper around that reply's frame (same wire bytes, another message value); resolved by the scripted bus
    Disguised,
}

impl Reply {
    pub fn short(&self) -> String {
        match self {
            Reply::Msg(m) => m.short(),
            Reply::None => "no reply".into(),
            Reply::BusError => "BUS ERROR".into(),
            Reply::Echo => "ECHO".into(),
            Reply::Disguised => "DISGUISED".into(),
        }
    }
}

#[derive(Serialize, Deserialize, Debug, Clone, Copy, PartialEq, Eq, Hash)]
pub enum OpKind {
    Configure,
    ConfigureIfNeeded,
    SendPages,
    ShowLoadedPage,
    LoadNextPage,
    ShutDown,
}

#[derive(Debug, Clone, Copy, PartialEq, Eq, Hash)]
pub enum Outcome {
    Ok,
    OkAutomatic,
    OkManual,
    ErrUnexpected,
    ErrBus,
}

/// What the controller is asked to do: operation, own address, the 16-byte block of its sign type, pages to send.
pub struct Task<'a> {
    pub op: OpKind,
    pub addr: u16,
    pub block: &'a [u8],
    pub pages: &'a [Vec<u8>],
}

enum Stop {
    NeedMore,
    Done(Outcome),
}

struct Sim<'a> {
    replies: &'a [Reply],
    pos: usize,
    emitted: Vec<M>,
}

impl Sim<'_> {
    fn send(&mut self, m: M) -> Result<Reply, Stop> {
        self.emitted.push(m);
        if self.pos >= self.replies.len() {
            return Err(Stop::NeedMore);
        }
        let r = self.replies[self.pos].clone();
        self.pos += 1;
        if r == Reply::BusError {
            return Err(Stop::Done(Outcome::ErrBus));
        }
        Ok(r)
    }

    fn expect(&mut self, m: M, want: Reply) -> Result<(), Stop> {
        let r = self.send(m)?;
        if r == want {
            Ok(())
        } else {
            Err(Stop::Done(Outcome::ErrUnexpected))
        }
    }

    fn request(&mut self, a: u16, op: u8) -> Result<(), Stop> {
        self.expect(M::Req(a, op), Reply::Msg(M::Ack(a, op)))
    }

    fn ensure_unconfigured(&mut self, a: u16) -> Result<(), Stop> {
        let r = self.send(M::Hello(a))?;
        if r == Reply::Msg(M::Report(a, S_UNCONFIGURED)) {
            return Ok(());
        }
        if r != Reply::Msg(M::Report(a, S_READY_TO_RESET)) {
            self.request(a, O_START_RESET)?;
            self.expect(M::Hello(a), Reply::Msg(M::Report(a, S_READY_TO_RESET)))?;
        }
        self.request(a, O_FINISH_RESET)?;
        self.expect(M::Hello(a), Reply::Msg(M::Report(a, S_UNCONFIGURED)))
    }

    fn transfer(&mut self, a: u16, items: &[Vec<u8>], op: u8, success: u8, failure: u8) -> Result<(), Stop> {
        let mut attempts = 1;
        loop {
            self.request(a, op)?;
            let mut n: u32 = 0;
            for item in items {
                for (i, chunk) in item.chunks(16).enumerate() {
                    self.expect(M::Data { off: (i * 16) as u16, data: chunk.to_vec() }, Reply::None)?;
                    n += 1;
                }
            }
            self.expect(M::Count(n as u16), Reply::None)?;
            let r = self.send(M::Query(a))?;
            if r == Reply::Msg(M::Report(a, failure)) && attempts < 3 {
                attempts += 1;
                continue;
            }
            if r == Reply::Msg(M::Report(a, success)) {
                return Ok(());
            }
            return Err(Stop::Done(Outcome::ErrUnexpected));
        }
    }

    fn configure(&mut self, t: &Task<'_>) -> Result<Outcome, Stop> {
        self.ensure_unconfigured(t.addr)?;
        self.transfer(t.addr, &[t.block.to_vec()], O_RECEIVE_CONFIG, S_CONFIG_RECEIVED, S_CONFIG_FAILED)?;
        Ok(Outcome::Ok)
    }

    fn switch_page(&mut self, a: u16, target: u8, trigger: u8, op: u8) -> Result<Outcome, Stop> {
        loop {
            let r = self.send(M::Query(a))?;
            match r {
                Reply::Msg(M::Report(x, s)) if x == a && (s == S_SHOWING_PAGES || s == target) => return Ok(Outcome::Ok),
                Reply::Msg(M::Report(x, s)) if x == a && s == trigger => self.request(a, op)?,
                Reply::Msg(M::Report(x, s)) if x == a && (s == S_PAGE_LOAD_IN_PROGRESS || s == S_PAGE_SHOW_IN_PROGRESS) => {}
                _ => return Err(Stop::Done(Outcome::ErrUnexpected)),
            }
        }
    }

    fn run(&mut self, t: &Task<'_>) -> Result<Outcome, Stop> {
        let a = t.addr;
        match t.op {
            OpKind::Configure => self.configure(t),
            OpKind::ConfigureIfNeeded => {
                let r = self.send(M::Hello(a))?;
                if let Reply::Msg(M::Report(x, s)) = r {
                    if x == a
                        && matches!(
                            s,
                            S_CONFIG_RECEIVED | S_SHOWING_PAGES | S_PAGE_LOADED | S_PAGE_SHOW_IN_PROGRESS | S_PAGE_SHOWN | S_PAGE_LOAD_IN_PROGRESS
                        )
                    {
                        return Ok(Outcome::Ok);
                    }
                }
                self.configure(t)
            }
            OpKind::SendPages => {
                self.transfer(a, t.pages, O_RECEIVE_PIXELS, S_PIXELS_RECEIVED, S_PIXELS_FAILED)?;
                self.expect(M::PixelsComplete(a), Reply::None)?;
                let r = self.send(M::Query(a))?;
                if r == Reply::Msg(M::Report(a, S_SHOWING_PAGES)) {
                    Ok(Outcome::OkAutomatic)
                } else {
                    Ok(Outcome::OkManual)
                }
            }
            OpKind::ShowLoadedPage => self.switch_page(a, S_PAGE_SHOWN, S_PAGE_LOADED, O_SHOW_LOADED_PAGE),
            OpKind::LoadNextPage => self.switch_page(a, S_PAGE_LOADED, S_PAGE_SHOWN, O_LOAD_NEXT_PAGE),
            OpKind::ShutDown => {
                self.expect(M::Goodbye(a), Reply::None)?;
                Ok(Outcome::Ok)
            }
        }
    }
}

/// The messages the documented protocol emits for these replies, and the outcome if the replies suffice
/// (None = the controller is waiting for one more reply after the last emitted message).
pub fn reference(t: &Task<'_>, replies: &[Reply]) -> (Vec<M>, Option<Outcome>) {
    let mut sim = Sim { replies, pos: 0, emitted: vec![] };
    let out = match sim.run(t) {
        Ok(o) => Some(o),
        Err(Stop::Done(o)) => Some(o),
        Err(Stop::NeedMore) => None,
    };
    (sim.emitted, out)
}

// ---------------------------------------------------------------------------------------
// C11: invariants on a transcript, without the reference conversation

fn msg_addr(m: &M) -> Option<u16> {
    match m {
        M::Hello(a) | M::Query(a) | M::Goodbye(a) | M::PixelsComplete(a) | M::Report(a, _) | M::Req(a, _) | M::Ack(a, _) => Some(*a),
        _ => None,
    }
}

/// `transcript` = every (message, reply) exchange of one controller call, `outcome` = what the call returned
/// (None while the call is still waiting: only the prefix invariants are evaluated then).
pub fn invariants(op: OpKind, own: u16, transcript: &[(M, Reply)], outcome: Option<Outcome>) -> Result<(), String> {
    let n = transcript.len();
    let is_last = |i: usize| i + 1 == n;
    let complete = outcome.is_some();
    let fail_stop = |i: usize, what: String, want: Outcome| -> Result<(), String> {
        if !is_last(i) {
            return Err(format!("{what} at exchange {i}, but the controller went on to send {}", transcript[i + 1].0.short()));
        }
        if complete && outcome != Some(want) {
            return Err(format!("{what} at exchange {i}, but the call returned {outcome:?} instead of {want:?}"));
        }
        Ok(())
    };
    let mut transfer_requests = 0;
    let mut last_transfer_verdict: Option<(usize, Reply, u8)> = None; // (index, reply to the query after a count, success state)
    for i in 0..n {
        let (m, r) = &transcript[i];
        // I4 every addressed message carries the controller's own address
        if let Some(a) = msg_addr(m) {
            if a != own {
                return Err(format!("I4: the controller for {own:#x} emitted {}", m.short()));
            }
        }
        if matches!(m, M::Report(..) | M::Ack(..) | M::Unknown { .. }) {
            return Err(format!("the controller emitted a sign-side / unknown message {}", m.short()));
        }
        // I2 bus error
        if *r == Reply::BusError {
            fail_stop(i, "I2: a bus error occurred".into(), Outcome::ErrBus)?;
            continue;
        }
        match m {
            M::Data { .. } | M::Count(_) | M::PixelsComplete(_) | M::Goodbye(_) => {
                if *r != Reply::None {
                    fail_stop(i, format!("I2: {} got the reply {} (none is allowed)", m.short(), r.short()), Outcome::ErrUnexpected)?;
                }
            }
            M::Req(_, op_i) => {
                if *op_i == O_RECEIVE_CONFIG || *op_i == O_RECEIVE_PIXELS {
                    transfer_requests += 1;
                    // I3 bounded retries, only after the corresponding failed report
                    if transfer_requests > 3 {
                        return Err(format!("I3: more than three transfer attempts in one call (exchange {i})"));
                    }
                    if transfer_requests > 1 {
                        let failed = if *op_i == O_RECEIVE_CONFIG { S_CONFIG_FAILED } else { S_PIXELS_FAILED };
                        let ok = i >= 1 && matches!(&transcript[i - 1], (M::Query(_), Reply::Msg(M::Report(a, s))) if *a == own && *s == failed);
                        if !ok {
                            return Err(format!(
                                "I3: transfer attempt {transfer_requests} (exchange {i}) was not immediately preceded by this sign's 'failed' report"
                            ));
                        }
                    }
                }
                if *r != Reply::Msg(M::Ack(own, *op_i)) {
                    fail_stop(i, format!("I2: {} got {} instead of its acknowledgement", m.short(), r.short()), Outcome::ErrUnexpected)?;
                }
            }
            M::Query(_) => {
                // the query that concludes a transfer attempt directly follows the count message
                if i >= 1 && matches!(transcript[i - 1].0, M::Count(_)) {
                    // which transfer? the most recent receive request
                    let op_t = transcript[..i].iter().rev().find_map(|(m, _)| match m {
                        M::Req(_, o) if *o == O_RECEIVE_CONFIG || *o == O_RECEIVE_PIXELS => Some(*o),
                        _ => None,
                    });
                    if let Some(op_t) = op_t {
                        let (succ, failed) = if op_t == O_RECEIVE_CONFIG { (S_CONFIG_RECEIVED, S_CONFIG_FAILED) } else { (S_PIXELS_RECEIVED, S_PIXELS_FAILED) };
                        last_transfer_verdict = Some((i, r.clone(), succ));
                        let own_success = *r == Reply::Msg(M::Report(own, succ));
                        let own_failed = *r == Reply::Msg(M::Report(own, failed));
                        if !own_success && !own_failed {
                            fail_stop(i, format!("I2: the transfer's state query got {}", r.short()), Outcome::ErrUnexpected)?;
                        }
                        if own_failed && transfer_requests >= 3 {
                            fail_stop(i, "I2/I3: the third attempt was reported failed".into(), Outcome::ErrUnexpected)?;
                        }
                    }
                }
                // I5 for page switching: a foreign or unrelated report must fail the call
                if matches!(op, OpKind::ShowLoadedPage | OpKind::LoadNextPage) {
                    let allowed = matches!(r, Reply::Msg(M::Report(a, s)) if *a == own && matches!(*s, S_SHOWING_PAGES | S_PAGE_SHOWN | S_PAGE_LOADED | S_PAGE_LOAD_IN_PROGRESS | S_PAGE_SHOW_IN_PROGRESS));
                    if !allowed {
                        fail_stop(i, format!("I2/I5: the page-switch query got {}", r.short()), Outcome::ErrUnexpected)?;
                    }
                }
            }
            M::Hello(_) => {
                // inside the reset dance the protocol allows exactly one reply
                if i >= 1 {
                    if let (M::Req(_, o), Reply::Msg(M::Ack(..))) = (&transcript[i - 1].0, &transcript[i - 1].1) {
                        let want = if *o == O_START_RESET {
                            Some(S_READY_TO_RESET)
                        } else if *o == O_FINISH_RESET {
                            Some(S_UNCONFIGURED)
                        } else {
                            None
                        };
                        if let Some(w) = want {
                            if *r != Reply::Msg(M::Report(own, w)) {
                                fail_stop(i, format!("I2: after the reset step the hello got {}", r.short()), Outcome::ErrUnexpected)?;
                            }
                        }
                    }
                }
                // I5: a foreign report to the opening hello is never taken as this sign's
                let opening = i == 0 || (op == OpKind::ConfigureIfNeeded && i == 1 && matches!(transcript[0].0, M::Hello(_)));
                if opening {
                    if let Reply::Msg(M::Report(a, s)) = r {
                        if *a != own {
                            let ready = matches!(*s, S_CONFIG_RECEIVED | S_SHOWING_PAGES | S_PAGE_LOADED | S_PAGE_SHOW_IN_PROGRESS | S_PAGE_SHOWN | S_PAGE_LOAD_IN_PROGRESS);
                            if op == OpKind::ConfigureIfNeeded && i == 0 && ready && is_last(i) && complete {
                                return Err(format!("I5: configure_if_needed returned after {} from another address", r.short()));
                            }
                            let in_ensure = (op == OpKind::Configure && i == 0) || (op == OpKind::ConfigureIfNeeded && i == 1);
                            if in_ensure && (*s == S_UNCONFIGURED || *s == S_READY_TO_RESET) && !is_last(i) {
                                if transcript[i + 1].0 != M::Req(own, O_START_RESET) {
                                    return Err(format!(
                                        "I5: {} from another address was taken as this sign's state (next message {})",
                                        r.short(),
                                        transcript[i + 1].0.short()
                                    ));
                                }
                            }
                        }
                    }
                }
            }
            _ => {}
        }
    }
    if let Some(out) = outcome {
        let ok = matches!(out, Outcome::Ok | Outcome::OkAutomatic | Outcome::OkManual);
        // I1 no unconfirmed success
        let had_transfer = transcript.iter().any(|(m, _)| matches!(m, M::Req(_, o) if *o == O_RECEIVE_CONFIG || *o == O_RECEIVE_PIXELS));
        if ok && matches!(op, OpKind::Configure | OpKind::ConfigureIfNeeded | OpKind::SendPages) && (had_transfer || op != OpKind::ConfigureIfNeeded) {
            match &last_transfer_verdict {
                Some((_, r, succ)) if *r == Reply::Msg(M::Report(own, *succ)) => {}
                Some((i, r, _)) => {
                    return Err(format!(
                        "I1: the call returned success although its final transfer attempt was concluded by {} (exchange {i})",
                        r.short()
                    ))
                }
                None => return Err("I1: the call returned success without any concluded transfer attempt".into()),
            }
        }
        if ok && transcript.iter().any(|(_, r)| *r == Reply::BusError) {
            return Err("I2: the call returned success although a bus error occurred".into());
        }
        // I5 flip style
        if op == OpKind::SendPages && ok {
            if let Some((M::Query(_), r)) = transcript.last() {
                let own_showing = *r == Reply::Msg(M::Report(own, S_SHOWING_PAGES));
                if own_showing != (out == Outcome::OkAutomatic) {
                    return Err(format!("I5: final flip-style query got {} but the call reported {out:?}", r.short()));
                }
            }
        }
        // I5 page switching: success needs an own report of the target / showing-pages state as the last exchange
        if matches!(op, OpKind::ShowLoadedPage | OpKind::LoadNextPage) && ok {
            let target = if op == OpKind::ShowLoadedPage { S_PAGE_SHOWN } else { S_PAGE_LOADED };
            match transcript.last() {
                Some((M::Query(_), Reply::Msg(M::Report(a, s)))) if *a == own && (*s == target || *s == S_SHOWING_PAGES) => {}
                other => {
                    return Err(format!(
                        "I5: page switch returned success but the last exchange was {:?}",
                        other.map(|(m, r)| format!("{} -> {}", m.short(), r.short()))
                    ))
                }
            }
        }
    }
    Ok(())
}

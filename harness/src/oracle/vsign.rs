//! Reference model of the sign side of the protocol, written from the C13 statement and the
//! documentation of `State` / `Operation` / the configuration block layouts. It never calls VirtualSign.

use flipdot_core::{SignType, State};

use crate::oracle::page::total_len;
use crate::oracle::table::{state_index, OPS, STATES};
use crate::repr::M;

/// golden (family, id) pairs of the 11 supported sign types, with dimensions (frozen copy)
pub const TYPES: [(SignType, u8, u8, u32, u32); 11] = [
    (SignType::Max3000Front112x16, 0x04, 0x47, 112, 16),
    (SignType::Max3000Front98x16, 0x04, 0x4D, 98, 16),
    (SignType::Max3000Side90x7, 0x04, 0x20, 90, 7),
    (SignType::Max3000Rear30x10, 0x04, 0x62, 30, 10),
    (SignType::Max3000Rear23x10, 0x04, 0x61, 23, 10),
    (SignType::Max3000Dash30x7, 0x04, 0x26, 30, 7),
    (SignType::HorizonFront160x16, 0x08, 0xB1, 160, 16),
    (SignType::HorizonFront140x16, 0x08, 0xB2, 140, 16),
    (SignType::HorizonSide96x8, 0x08, 0xB4, 96, 8),
    (SignType::HorizonRear48x16, 0x08, 0xB5, 48, 16),
    (SignType::HorizonDash40x12, 0x08, 0xB9, 40, 12),
];

/// frozen copy of the 11 configuration blocks (index-aligned with TYPES)
pub const BLOCKS: [[u8; 16]; 11] = [
    [0x04, 0x47, 0x00, 0x0F, 0x10, 0x1C, 0x1C, 0x1C, 0x1C, 0x10, 0, 0, 0, 0, 0, 0],
    [0x04, 0x4D, 0x00, 0x0D, 0x10, 0x0E, 0x1C, 0x1C, 0x1C, 0x10, 0, 0, 0, 0, 0, 0],
    [0x04, 0x20, 0x00, 0x06, 0x07, 0x1E, 0x1E, 0x1E, 0x00, 0x08, 0, 0, 0, 0, 0, 0],
    [0x04, 0x62, 0x00, 0x04, 0x0A, 0x1E, 0x00, 0x00, 0x00, 0x10, 0, 0, 0, 0, 0, 0],
    [0x04, 0x61, 0x00, 0x04, 0x0A, 0x17, 0x00, 0x00, 0x00, 0x10, 0, 0, 0, 0, 0, 0],
    [0x04, 0x26, 0x00, 0x03, 0x07, 0x1E, 0x00, 0x00, 0x00, 0x08, 0, 0, 0, 0, 0, 0],
    [0x08, 0xB1, 0x00, 0x15, 0x0C, 0x10, 0x00, 0xA0, 0x04, 0x00, 0x28, 0x00, 0, 0, 0, 0],
    [0x08, 0xB2, 0x00, 0x12, 0x04, 0x10, 0x00, 0x8C, 0x01, 0x03, 0x14, 0x28, 0, 0, 0, 0],
    [0x08, 0xB4, 0x00, 0x07, 0x0C, 0x08, 0x00, 0x60, 0x02, 0x00, 0x30, 0x00, 0, 0, 0, 0],
    [0x08, 0xB5, 0x00, 0x07, 0x0C, 0x10, 0x00, 0x30, 0x01, 0x00, 0x30, 0x00, 0, 0, 0, 0],
    [0x08, 0xB9, 0x00, 0x06, 0x8C, 0x0C, 0x00, 0x28, 0x01, 0x00, 0x28, 0x00, 0x04, 0, 0, 0],
];

pub fn type_of_block(block: &[u8]) -> Option<usize> {
    if block.len() != 16 {
        return None;
    }
    TYPES.iter().position(|t| t.1 == block[0] && t.2 == block[1])
}

/// What the statement lets us say about the type a sign reports after accepting `block`:
/// the exact block of a supported type -> that type; anything else -> not determined by the statement.
pub fn type_knowledge_of_block(block: &[u8]) -> TypeKnowledge {
    match type_of_block(block) {
        Some(i) if block == &BLOCKS[i][..] => TypeKnowledge::Is(Some(i)),
        Some(_) => TypeKnowledge::Unconstrained,
        // a family/id pair none of the 11 types known to this harness carries: today the sign reports no type,
        // but a sign type added later would legitimately be reported, so nothing is demanded
        None => TypeKnowledge::Unconstrained,
    }
}

/// (width, height) a sign derives from a 16-byte block of family 4 / 8 per the documented layouts
pub fn dims_of_block(block: &[u8]) -> Option<(u32, u32)> {
    if block.len() != 16 {
        return None;
    }
    match block[0] {
        0x04 => Some((block[5] as u32 + block[6] as u32 + block[7] as u32 + block[8] as u32, block[4] as u32)),
        0x08 => Some((block[7] as u32, block[5] as u32)),
        _ => None,
    }
}

// state indices into table::STATES
pub const S_UNCONFIGURED: u8 = 0;
pub const S_CONFIG_IN_PROGRESS: u8 = 1;
pub const S_CONFIG_RECEIVED: u8 = 2;
pub const S_CONFIG_FAILED: u8 = 3;
pub const S_PIXELS_IN_PROGRESS: u8 = 4;
pub const S_PIXELS_RECEIVED: u8 = 5;
pub const S_PIXELS_FAILED: u8 = 6;
pub const S_PAGE_LOADED: u8 = 7;
pub const S_PAGE_LOAD_IN_PROGRESS: u8 = 8;
pub const S_PAGE_SHOWN: u8 = 9;
pub const S_PAGE_SHOW_IN_PROGRESS: u8 = 10;
pub const S_SHOWING_PAGES: u8 = 11;
pub const S_READY_TO_RESET: u8 = 12;

// operation indices into table::OPS
pub const O_RECEIVE_CONFIG: u8 = 0;
pub const O_RECEIVE_PIXELS: u8 = 1;
pub const O_SHOW_LOADED_PAGE: u8 = 2;
pub const O_LOAD_NEXT_PAGE: u8 = 3;
pub const O_START_RESET: u8 = 4;
pub const O_FINISH_RESET: u8 = 5;

pub fn legal(op: u8, state: u8) -> bool {
    match op {
        O_RECEIVE_CONFIG => matches!(state, S_UNCONFIGURED | S_CONFIG_FAILED),
        O_RECEIVE_PIXELS => matches!(
            state,
            S_CONFIG_RECEIVED | S_PIXELS_FAILED | S_PAGE_LOADED | S_PAGE_LOAD_IN_PROGRESS | S_PAGE_SHOWN | S_PAGE_SHOW_IN_PROGRESS | S_SHOWING_PAGES
        ),
        O_SHOW_LOADED_PAGE => state == S_PAGE_LOADED,
        O_LOAD_NEXT_PAGE => state == S_PAGE_SHOWN,
        O_START_RESET => true,
        O_FINISH_RESET => state == S_READY_TO_RESET,
        _ => false,
    }
}

#[derive(Debug, Clone, PartialEq, Eq, Hash)]
pub struct ModelPage {
    pub w: u32,
    pub h: u32,
    pub bytes: Vec<u8>,
}

/// What the statement determines about `sign_type()`.
#[derive(Debug, Clone, Copy, PartialEq, Eq, Hash)]
pub enum TypeKnowledge {
    /// must be exactly this (None = no type / unknown block)
    Is(Option<usize>),
    /// the statement does not reach this corner (failed configuration, "received" configuration of zero blocks)
    Unconstrained,
}

#[derive(Debug, Clone, PartialEq, Eq, Hash)]
pub struct SignModel {
    pub addr: u16,
    pub automatic: bool,
    pub state: u8,
    pub w: u32,
    pub h: u32,
    pub pages: Vec<ModelPage>,
    pub pending: Vec<u8>,
    /// chunks accepted since the receive request (16-bit, like the wire field)
    pub chunks: u16,
    /// type of the most recently accepted configuration block of the running/last transfer
    last_block_type: TypeKnowledge,
    blocks_this_transfer: u32,
    block_since_reset: bool,
    pub sign_type: TypeKnowledge,
    /// false in the corner where the configured size is not determined by the statement
    /// (a configuration "received" with zero blocks after an earlier failed transfer accepted one)
    pub dims_determined: bool,
    /// bookkeeping for the evidence: has this sign seen an abandoned or irregular transfer?
    pub irregular: bool,
}

impl SignModel {
    pub fn new(addr: u16, automatic: bool) -> Self {
        SignModel {
            addr,
            automatic,
            state: S_UNCONFIGURED,
            w: 0,
            h: 0,
            pages: vec![],
            pending: vec![],
            chunks: 0,
            last_block_type: TypeKnowledge::Is(None),
            blocks_this_transfer: 0,
            block_since_reset: false,
            sign_type: TypeKnowledge::Is(None),
            dims_determined: true,
            irregular: false,
        }
    }

    pub fn state_enum(&self) -> State {
        STATES[self.state as usize].0
    }

    pub fn receiving(&self) -> bool {
        self.state == S_CONFIG_IN_PROGRESS || self.state == S_PIXELS_IN_PROGRESS
    }

    fn blank(&mut self) {
        self.state = S_UNCONFIGURED;
        self.w = 0;
        self.h = 0;
        self.pages.clear();
        self.pending.clear();
        self.chunks = 0;
        self.last_block_type = TypeKnowledge::Is(None);
        self.blocks_this_transfer = 0;
        self.block_since_reset = false;
        self.sign_type = TypeKnowledge::Is(None);
        self.dims_determined = true;
    }

    fn close_page(&mut self) {
        if self.pending.is_empty() {
            return;
        }
        let data = std::mem::take(&mut self.pending);
        if self.w > 0 && self.h > 0 && data.len() == total_len(self.w, self.h) {
            self.pages.push(ModelPage { w: self.w, h: self.h, bytes: data });
        } else {
            self.irregular = true;
        }
    }

    /// Deliver one message; returns the reply the documented state machine gives.
    pub fn step(&mut self, m: &M) -> Option<M> {
        match m {
            M::Hello(a) | M::Query(a) if *a == self.addr => {
                let reported = self.state;
                if self.state == S_PAGE_LOAD_IN_PROGRESS {
                    self.state = S_PAGE_LOADED;
                } else if self.state == S_PAGE_SHOW_IN_PROGRESS {
                    self.state = S_PAGE_SHOWN;
                }
                Some(M::Report(self.addr, reported))
            }
            M::Req(a, op) if *a == self.addr => {
                if !legal(*op, self.state) {
                    return None;
                }
                match *op {
                    O_RECEIVE_CONFIG => {
                        self.state = S_CONFIG_IN_PROGRESS;
                        self.chunks = 0;
                        self.blocks_this_transfer = 0;
                        // what sign_type() shows while a configuration is under way is not determined
                        self.sign_type = TypeKnowledge::Unconstrained;
                    }
                    O_RECEIVE_PIXELS => {
                        self.state = S_PIXELS_IN_PROGRESS;
                        self.pages.clear();
                        self.pending.clear();
                        self.chunks = 0;
                    }
                    O_SHOW_LOADED_PAGE => self.state = S_PAGE_SHOW_IN_PROGRESS,
                    O_LOAD_NEXT_PAGE => self.state = S_PAGE_LOAD_IN_PROGRESS,
                    O_START_RESET => {
                        if self.receiving() {
                            self.irregular = true; // abandoned transfer
                        }
                        self.state = S_READY_TO_RESET;
                    }
                    O_FINISH_RESET => self.blank(),
                    _ => unreachable!(),
                }
                Some(M::Ack(self.addr, *op))
            }
            M::Goodbye(a) if *a == self.addr => {
                let irr = self.irregular || self.receiving();
                self.blank();
                self.irregular = irr;
                None
            }
            M::PixelsComplete(a) if *a == self.addr => {
                if self.state == S_PIXELS_RECEIVED {
                    self.state = if self.automatic { S_SHOWING_PAGES } else { S_PAGE_LOADED };
                }
                None
            }
            M::Data { off, data } => {
                if self.state == S_CONFIG_IN_PROGRESS {
                    if *off == 0 && data.len() == 16 {
                        if let Some((w, h)) = dims_of_block(data) {
                            self.w = w;
                            self.h = h;
                            self.last_block_type = type_knowledge_of_block(data);
                            self.blocks_this_transfer += 1;
                            self.block_since_reset = true;
                            self.chunks = self.chunks.wrapping_add(1);
                            if self.last_block_type != TypeKnowledge::Is(type_of_block(data)) || type_of_block(data).is_none() {
                                self.irregular = true;
                            }
                            return None;
                        }
                    }
                    self.irregular = true; // a chunk that is not a configuration block
                } else if self.state == S_PIXELS_IN_PROGRESS {
                    if *off == 0 {
                        self.close_page();
                    }
                    if data.len() != 16 {
                        self.irregular = true;
                    }
                    self.pending.extend_from_slice(data);
                    self.chunks = self.chunks.wrapping_add(1);
                }
                None
            }
            M::Count(n) => {
                if self.state == S_CONFIG_IN_PROGRESS {
                    if *n == self.chunks {
                        self.state = S_CONFIG_RECEIVED;
                        if self.blocks_this_transfer >= 1 {
                            self.sign_type = self.last_block_type;
                        } else {
                            self.sign_type = TypeKnowledge::Unconstrained;
                            if self.block_since_reset {
                                self.dims_determined = false;
                            }
                        }
                    } else {
                        self.state = S_CONFIG_FAILED;
                        self.sign_type = TypeKnowledge::Unconstrained;
                        self.irregular = true;
                    }
                    self.chunks = 0;
                } else if self.state == S_PIXELS_IN_PROGRESS {
                    self.close_page();
                    if *n == self.chunks {
                        self.state = S_PIXELS_RECEIVED;
                    } else {
                        self.state = S_PIXELS_FAILED;
                        self.irregular = true;
                    }
                    self.chunks = 0;
                }
                None
            }
            // foreign addresses, sign-side messages and unknown frames are ignored
            _ => None,
        }
    }
}

pub fn state_idx(s: State) -> u8 {
    state_index(s)
}

pub fn op_legal_name(op: u8) -> String {
    format!("{:?}", OPS[op as usize].0)
}

//! Independent Intel-HEX frame codec, written from the format diagram in the Frame documentation:
//!   ':' LL AAAA TT DD.. CC [CR LF]      (two upper-case hex digits per byte, big-endian address,
//!   CC chosen so that the sum of all encoded bytes is 0 mod 256)
//! Byte-level, no regex, no UTF-8 conversion.

const DIGITS: &[u8; 16] = b"0123456789ABCDEF";

pub fn ref_encode(addr: u16, ty: u8, data: &[u8]) -> Vec<u8> {
    assert!(data.len() <= 255);
    let mut fields: Vec<u8> = vec![data.len() as u8, (addr / 256) as u8, (addr % 256) as u8, ty];
    fields.extend_from_slice(data);
    let mut sum: u32 = 0;
    for &b in &fields {
        sum += b as u32;
    }
    let ck = ((256 - (sum % 256)) % 256) as u8;
    fields.push(ck);
    let mut out = vec![b':'];
    for b in fields {
        out.push(DIGITS[(b / 16) as usize]);
        out.push(DIGITS[(b % 16) as usize]);
    }
    out
}

pub fn ref_encode_crlf(addr: u16, ty: u8, data: &[u8]) -> Vec<u8> {
    let mut v = ref_encode(addr, ty, data);
    v.push(b'\r');
    v.push(b'\n');
    v
}

#[derive(Debug, Clone, PartialEq, Eq)]
pub enum RefDecode {
    Ok { addr: u16, ty: u8, data: Vec<u8> },
    Invalid,
    Mismatch { declared: usize, actual: usize },
    BadChecksum { declared: u8, computed: u8 },
}

impl RefDecode {
    pub fn class(&self) -> &'static str {
        match self {
            RefDecode::Ok { .. } => "accepted",
            RefDecode::Invalid => "invalid",
            RefDecode::Mismatch { .. } => "length-mismatch",
            RefDecode::BadChecksum { .. } => "bad-checksum",
        }
    }
}

fn hexval(c: u8) -> Option<u8> {
    match c {
        b'0'..=b'9' => Some(c - b'0'),
        b'A'..=b'F' => Some(c - b'A' + 10),
        b'a'..=b'f' => Some(c - b'a' + 10),
        _ => None,
    }
}

/// Does the string have the documented *shape* (colon, >= 5 hex pairs, optional single CRLF, nothing else)?
/// Returns the decoded bytes (length, addr hi, addr lo, type, data.., checksum) if so.
pub fn ref_shape(bytes: &[u8]) -> Option<Vec<u8>> {
    let body: &[u8] = if bytes.len() >= 2 && bytes[bytes.len() - 2] == b'\r' && bytes[bytes.len() - 1] == b'\n' {
        &bytes[..bytes.len() - 2]
    } else {
        bytes
    };
    if body.is_empty() || body[0] != b':' {
        return None;
    }
    let digits = &body[1..];
    if digits.len() % 2 != 0 || digits.len() < 10 {
        return None;
    }
    let mut out = Vec::with_capacity(digits.len() / 2);
    let mut i = 0;
    while i < digits.len() {
        let hi = hexval(digits[i])?;
        let lo = hexval(digits[i + 1])?;
        out.push(hi * 16 + lo);
        i += 2;
    }
    Some(out)
}

pub fn ref_decode(bytes: &[u8]) -> RefDecode {
    let fields = match ref_shape(bytes) {
        Some(f) => f,
        None => return RefDecode::Invalid,
    };
    let n = fields.len();
    let declared = fields[0] as usize;
    let actual = n - 5;
    if declared != actual {
        return RefDecode::Mismatch { declared, actual };
    }
    let mut sum: u32 = 0;
    for &b in &fields[..n - 1] {
        sum += b as u32;
    }
    let computed = ((256 - (sum % 256)) % 256) as u8;
    let declared_ck = fields[n - 1];
    if computed != declared_ck {
        return RefDecode::BadChecksum {
            declared: declared_ck,
            computed,
        };
    }
    RefDecode::Ok {
        addr: (fields[1] as u16) * 256 + fields[2] as u16,
        ty: fields[3],
        data: fields[4..n - 1].to_vec(),
    }
}

/// The shape predicate of C01, stated directly on an encoding (not via the decoder above):
/// leading colon, only [0-9A-F] afterwards, length 11 + 2n, decoded bytes sum to 0 mod 256.
pub fn wire_shape_ok(enc: &[u8], data_len: usize) -> Result<(), String> {
    if enc.len() != 11 + 2 * data_len {
        return Err(format!("encoded length {} != 11 + 2*{}", enc.len(), data_len));
    }
    if enc[0] != b':' {
        return Err("no leading colon".into());
    }
    let mut sum: u32 = 0;
    for pair in enc[1..].chunks(2) {
        let mut v = 0u32;
        for &c in pair {
            let d = match c {
                b'0'..=b'9' => c - b'0',
                b'A'..=b'F' => c - b'A' + 10,
                _ => return Err(format!("character {:?} is not an upper-case hex digit", c as char)),
            };
            v = v * 16 + d as u32;
        }
        sum += v;
    }
    if sum % 256 != 0 {
        return Err(format!("encoded bytes sum to {} mod 256, not 0", sum % 256));
    }
    Ok(())
}

#[cfg(test)]
mod tests {
    use super::*;
    #[test]
    fn golden() {
        assert_eq!(ref_encode(2, 1, &[3, 31]), b":02000201031FD9".to_vec());
        assert_eq!(ref_encode(0x7F, 2, &[0xFF]), b":01007F02FF7F".to_vec());
        assert_eq!(
            ref_decode(b":01007F02FF7F\r\n"),
            RefDecode::Ok { addr: 0x7F, ty: 2, data: vec![0xFF] }
        );
        assert_eq!(ref_decode(b":01007F02FF7F\n"), RefDecode::Invalid);
        assert_eq!(ref_decode(b":01007F02FF7E"), RefDecode::BadChecksum { declared: 0x7E, computed: 0x7F });
        assert_eq!(ref_decode(b":02007F02FF7F"), RefDecode::Mismatch { declared: 2, actual: 1 });
    }
}

//! Independent reference models. Nothing in here calls the function it is the oracle for.
pub mod controller;
pub mod hex;
pub mod page;
pub mod table;
pub mod vsign;

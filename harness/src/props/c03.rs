//! C03 — decoder total, strict, classified; agrees with an independent parser.

use flipdot_core::{Frame, FrameError};
use proptest::prelude::*;
use serde::{Deserialize, Serialize};
use serde_json::{json, Value};

use crate::engine::{catch, h64, par_range, run_generated, show_bytes, Ctx, Stats};
use crate::oracle::hex::{ref_decode, ref_shape, RefDecode};
use crate::props::c01::{addr_strategy, byte_strategy};

pub const RULE: &str = "byte strings from three generators: (i) exhaustive - every string of length 0..=4 (quick) / 0..=5 (thorough) over the 28-symbol structural alphabet {':', 0-9, A-F, a-f, 'G', CR, LF, NUL, 0xFF}, every minimal frame ':'+10 digits over {0,1,F,f} x 9 terminator variants, and every one-data-byte frame ':'+12 digits over {0,1,F}; (ii) grammar based - optional junk prefix, colon, hex pairs in random case with right/wrong length field and right/wrong checksum, optional odd digit, terminator variant, optional suffix/second frame, 0..3 random byte edits or multi-byte UTF-8 look-alikes of digits/letters/colon/line ends, up to ~600 bytes; each compared with a hand-written byte-level parser on accept/reject, error class, the numbers the class reports, and (if accepted) re-encoding. Non-trivial = the string has the documented shape (it reaches the length/checksum logic) or is within one byte edit of having it; distinct by hash of the string";
pub const ASSUMPTIONS: &[&str] = &["the reference parser in oracle/hex.rs implements the documented form (':' + hex pairs in either case + optional single CRLF) and the stated precedence malformed > length > checksum"];

#[derive(Serialize, Deserialize, Debug, Clone)]
pub struct BytesCase {
    pub bytes: Vec<u8>,
}

const ALPHABET: &[u8; 28] = b":0123456789ABCDEFabcdefG\r\n\x00\xff";

fn shape_valid(s: &[u8]) -> bool {
    ref_shape(s).is_some()
}

/// is `s` (shape-invalid) within one byte edit of a shape-valid string? brute force, short strings only
fn near_shape(s: &[u8]) -> bool {
    let n = s.len();
    let mut buf: Vec<u8> = Vec::with_capacity(n + 1);
    // substitution
    for i in 0..n {
        for &c in b":0\r\n" {
            if s[i] == c {
                continue;
            }
            buf.clear();
            buf.extend_from_slice(s);
            buf[i] = c;
            if shape_valid(&buf) {
                return true;
            }
        }
    }
    // deletion
    for i in 0..n {
        buf.clear();
        buf.extend_from_slice(&s[..i]);
        buf.extend_from_slice(&s[i + 1..]);
        if shape_valid(&buf) {
            return true;
        }
    }
    // insertion
    for i in 0..=n {
        for &c in b":0\r\n" {
            buf.clear();
            buf.extend_from_slice(&s[..i]);
            buf.push(c);
            buf.extend_from_slice(&s[i..]);
            if shape_valid(&buf) {
                return true;
            }
        }
    }
    false
}

/// The oracle for one byte string. `classify` additionally computes the near/far class (costly).
pub fn check_bytes(bytes: &[u8], st: &mut Stats, classify: bool) -> Result<(), String> {
    let want = ref_decode(bytes);
    st.eval();
    // the same text is decoded twice in a row and both results are judged: decoding is a function of the text alone
    for round in 0..2 {
    let got = catch(|| Frame::from_bytes(bytes)).map_err(|p| format!("decoder panicked on {}: {p}", show_bytes(bytes)))?;
    let mismatch = |what: &str, got: &dyn std::fmt::Debug| -> String {
        format!(
            "decoding {}{}: implementation gives {what} {got:?}, the reference parser gives {want:?}",
            show_bytes(bytes),
            if round == 1 { " (the second time in a row)" } else { "" }
        )
    };
    match (&got, &want) {
        (Ok(f), RefDecode::Ok { addr, ty, data }) => {
            if f.address().0 != *addr || f.message_type().0 != *ty || f.data().as_ref() != &data[..] {
                return Err(mismatch("a frame with different fields", f));
            }
            // re-encoding reproduces the input up to hex-digit case and the optional terminator
            let re = catch(|| f.to_bytes()).map_err(|p| format!("to_bytes panicked on an accepted frame: {p}"))?;
            let mut canon: Vec<u8> = bytes.to_ascii_uppercase();
            if canon.ends_with(b"\r\n") {
                canon.truncate(canon.len() - 2);
            }
            if re != canon {
                return Err(format!(
                    "re-encoding the accepted string {} gives {}, expected {}",
                    show_bytes(bytes),
                    show_bytes(&re),
                    show_bytes(&canon)
                ));
            }
        }
        (Err(FrameError::InvalidFrame { .. }), RefDecode::Invalid) => {}
        (Err(FrameError::FrameDataMismatch { expected, actual, .. }), RefDecode::Mismatch { declared, actual: a }) => {
            if expected != declared || actual != a {
                return Err(mismatch("a length mismatch reporting other counts", &(expected, actual)));
            }
        }
        (Err(FrameError::BadChecksum { expected, actual, .. }), RefDecode::BadChecksum { declared, computed }) => {
            if expected != declared || actual != computed {
                return Err(mismatch("a checksum error reporting other values", &(expected, actual)));
            }
        }
        (Ok(f), _) => return Err(mismatch("acceptance as", f)),
        (Err(e), _) => return Err(mismatch("the rejection", e)),
    }
    }
    match want {
        RefDecode::Invalid => {
            if classify {
                if bytes.len() <= 64 {
                    if near_shape(bytes) {
                        st.class("invalid-near");
                        st.nontrivial(h64(bytes));
                    } else {
                        st.class("invalid-far");
                    }
                } else {
                    st.class("invalid-long(unclassified)");
                }
            } else {
                st.class("invalid");
            }
        }
        ref w => {
            st.class(w.class());
            if classify {
                st.class(match w {
                    RefDecode::Ok { .. } => "grammar:accepted",
                    RefDecode::Mismatch { .. } => "grammar:length-mismatch",
                    _ => "grammar:bad-checksum",
                });
            }
            st.nontrivial(h64(bytes));
            if st.want_sample() {
                st.sample(json!({"input": show_bytes(bytes), "reference": format!("{w:?}")}));
            }
        }
    }
    Ok(())
}

/// Multi-byte UTF-8 sequences that a text-oriented decoder might mistake for digits, hex letters, colons or
/// line ends: Unicode decimal digits of several scripts, fullwidth forms, and Unicode spaces/line separators.
const LOOKALIKES_FIXED: &[&str] = &[
    "\u{0660}", "\u{0661}", "\u{0669}", "\u{06F0}", "\u{06F5}", "\u{07C0}", "\u{0966}", "\u{096F}", "\u{09E6}", "\u{0E50}", "\u{1810}",
    "\u{FF10}", "\u{FF11}", "\u{FF19}", "\u{FF21}", "\u{FF26}", "\u{FF41}", "\u{FF46}", "\u{1D7CE}", "\u{1D7D8}", "\u{1D7FF}",
    "\u{FF1A}", "\u{FE55}", "\u{A789}", "\u{00A0}", "\u{2028}", "\u{2029}", "\u{0085}", "\u{00B2}", "\u{2160}", "\u{0410}", "\u{0391}",
];

/// The fixed list plus every non-ASCII character that a standard text routine maps into the frame alphabet:
/// characters whose Unicode upper- or lower-case mapping consists only of hex digits, colons or line ends (e.g. the
/// ligature U+FB00, whose upper case is the two letters "FF"), and every non-ASCII Unicode white-space character
/// (what `str::trim` removes).
pub fn lookalikes() -> &'static [String] {
    static L: std::sync::OnceLock<Vec<String>> = std::sync::OnceLock::new();
    L.get_or_init(|| {
        let in_alphabet = |s: &str| !s.is_empty() && s.bytes().all(|b| b.is_ascii_hexdigit() || b == b':' || b == b'\r' || b == b'\n');
        let mut v: Vec<String> = LOOKALIKES_FIXED.iter().map(|s| s.to_string()).collect();
        for cp in 0x80u32..=0x10FFFF {
            let Some(c) = char::from_u32(cp) else { continue };
            let up: String = c.to_uppercase().collect();
            let lo: String = c.to_lowercase().collect();
            // (plus the usual invisible characters: byte-order mark, zero-width space/joiners, word joiner, soft hyphen,
            // directional marks - what text tools put in front of or inside a line without showing it)
            let invisible = matches!(cp, 0xFEFF | 0x200B..=0x200F | 0x2060 | 0x00AD | 0x202A..=0x202E | 0x2066..=0x2069 | 0xFFFE | 0xFFFD);
            if in_alphabet(&up) || in_alphabet(&lo) || c.is_whitespace() || invisible {
                let s = c.to_string();
                if !v.contains(&s) {
                    v.push(s);
                }
            }
        }
        v
    })
}

const TERMINATORS: &[&[u8]] = &[
    b"",
    b"\r\n",
    b"\n",
    b"\r",
    b"\r\r\n",
    b"\r\n\n",
    b"\r\n\r\n",
    b"\n\r",
    b"\r\n:0000000000",
];

fn grammar_strategy() -> impl Strategy<Value = BytesCase> {
    let data = prop_oneof![
        8 => 0usize..=6,
        4 => 7usize..=20,
        2 => 21usize..=100,
        1 => proptest::sample::select(vec![254usize, 255, 256, 280]),
    ]
    .prop_flat_map(|n| proptest::collection::vec(byte_strategy(), n));
    let prefix = prop_oneof![
        17 => Just(vec![]),
        1 => proptest::collection::vec(any::<u8>(), 1..4),
        1 => Just(b":".to_vec()),
        1 => Just(b"\r\n".to_vec()),
    ];
    let colon = prop_oneof![18 => Just(Some(b':')), 1 => Just(None), 1 => any::<u8>().prop_map(Some)];
    let len_delta = prop_oneof![7 => Just(0i32), 1 => Just(1), 1 => Just(-1), 1 => -300i32..300];
    let ck_delta = prop_oneof![6 => Just(0u8), 2 => Just(1u8), 2 => any::<u8>()];
    let odd = prop_oneof![15 => Just(None), 1 => proptest::sample::select(b"0Ff9aG".to_vec()).prop_map(Some)];
    let term = prop_oneof![4 => Just(0u16), 4 => Just(1u16), 3 => any::<u16>()];
    let suffix = prop_oneof![16 => Just(vec![]), 1 => proptest::collection::vec(any::<u8>(), 1..4), 1 => Just(b" ".to_vec())];
    let edits = prop_oneof![
        12 => Just(vec![]),
        5 => proptest::collection::vec((any::<u16>(), any::<u8>(), 0u8..3), 1..=1),
        2 => proptest::collection::vec((any::<u16>(), any::<u8>(), 0u8..3), 2..=3),
        // kinds 3/4: replace one character by / insert a multi-byte look-alike (index = byte mod table size)
        3 => proptest::collection::vec((any::<u16>(), any::<u8>(), 3u8..5), 1..=2),
    ];
    (
        (addr_strategy(), byte_strategy(), data),
        (prefix, colon, len_delta, ck_delta),
        (odd, term, suffix, edits, any::<u64>()),
    )
        .prop_map(|((addr, ty, data), (prefix, colon, len_delta, ck_delta), (odd, term, suffix, edits, case_seed))| {
            let mut fields: Vec<u8> = vec![
                ((data.len() as i32 + len_delta).rem_euclid(256)) as u8,
                (addr >> 8) as u8,
                addr as u8,
                ty,
            ];
            fields.extend_from_slice(&data);
            let sum = fields.iter().fold(0u8, |a, &b| a.wrapping_add(b));
            fields.push(0u8.wrapping_sub(sum).wrapping_add(ck_delta));
            let mut out = prefix;
            if let Some(c) = colon {
                out.push(c);
            }
            for (i, b) in fields.iter().enumerate() {
                for (j, nib) in [b >> 4, b & 15].into_iter().enumerate() {
                    let lower = h64(&(case_seed, i, j)) % 3 == 0;
                    let ch = b"0123456789ABCDEF"[nib as usize];
                    out.push(if lower { ch.to_ascii_lowercase() } else { ch });
                }
            }
            if let Some(d) = odd {
                out.push(d);
            }
            out.extend_from_slice(TERMINATORS[crate::engine::pick_idx(term, TERMINATORS.len())]);
            out.extend_from_slice(&suffix);
            for (sel, byte, kind) in edits {
                if out.is_empty() {
                    break;
                }
                let pos = crate::engine::pick_idx(sel, out.len());
                match kind {
                    0 => out[pos] = byte,
                    1 => {
                        out.remove(pos);
                    }
                    2 => out.insert(pos, byte),
                    k => {
                        let seq = lookalikes()[byte as usize % lookalikes().len()].as_bytes();
                        if k == 3 {
                            out.remove(pos);
                        }
                        for (j, b) in seq.iter().enumerate() {
                            out.insert(pos + j, *b);
                        }
                    }
                }
            }
            BytesCase { bytes: out }
        })
}

pub fn run(ctx: &Ctx) {
    // (i-a) every string up to length 4 / 5 over the structural alphabet -----------------------
    let maxlen = ctx.tier.pick(4usize, 5usize);
    // jobs: the first two symbols (or shorter strings in job 0)
    par_range(ctx, "exhaustive-short", 28 * 28 + 1, |job, st| {
        let fail = |b: &[u8], m: String| (json!({"bytes": b}), m);
        if job == 28 * 28 {
            check_bytes(b"", st, false).map_err(|m| fail(b"", m))?;
            for &a in ALPHABET.iter() {
                check_bytes(&[a], st, false).map_err(|m| fail(&[a], m))?;
            }
            return Ok(());
        }
        let a = ALPHABET[(job / 28) as usize];
        let b = ALPHABET[(job % 28) as usize];
        let mut s = vec![a, b];
        check_bytes(&s, st, false).map_err(|m| fail(&s, m))?;
        // depth-first over the remaining positions
        fn rec(s: &mut Vec<u8>, maxlen: usize, st: &mut Stats) -> Result<(), (Value, String)> {
            if s.len() == maxlen {
                return Ok(());
            }
            for &c in ALPHABET.iter() {
                s.push(c);
                check_bytes(s, st, false).map_err(|m| (json!({"bytes": s.clone()}), m))?;
                rec(s, maxlen, st)?;
                s.pop();
            }
            Ok(())
        }
        rec(&mut s, maxlen, st)
    });
    ctx.part_done("exhaustive-short", true, json!({"alphabet": 28, "max_len": maxlen}));

    // (i-b) every minimal frame over {0,1,F,f} x terminators ---------------------------------
    let digs = b"01Ff";
    par_range(ctx, "exhaustive-minimal-frames", 4u64.pow(4), |job, st| {
        let mut s = vec![b':'; 11];
        for k in 0..4 {
            s[1 + k] = digs[((job >> (2 * k)) & 3) as usize];
        }
        for rest in 0..4u32.pow(6) {
            for k in 0..6 {
                s[5 + k] = digs[((rest >> (2 * k)) & 3) as usize];
            }
            for t in TERMINATORS {
                let mut full = s.clone();
                full.extend_from_slice(t);
                check_bytes(&full, st, false).map_err(|m| (json!({"bytes": full}), m))?;
            }
        }
        Ok(())
    });
    ctx.part_done("exhaustive-minimal-frames", true, json!("':' + 10 digits over {0,1,F,f} (4^10) x 9 terminator variants"));

    // (i-c) every one-data-byte frame over {0,1,F} ----------------------------------------
    let digs3 = b"01F";
    par_range(ctx, "exhaustive-one-byte-frames", 3u64.pow(5), |job, st| {
        let mut s = vec![b':'; 13];
        let mut j = job;
        for k in 0..5 {
            s[1 + k] = digs3[(j % 3) as usize];
            j /= 3;
        }
        for rest in 0..3u32.pow(7) {
            let mut r = rest;
            for k in 0..7 {
                s[6 + k] = digs3[(r % 3) as usize];
                r /= 3;
            }
            check_bytes(&s, st, false).map_err(|m| (json!({"bytes": s.clone()}), m))?;
        }
        Ok(())
    });
    ctx.part_done("exhaustive-one-byte-frames", true, json!("':' + 12 digits over {0,1,F} (3^12)"));

    // (i-d) every look-alike sequence substituted at / inserted before every position of three valid frames
    par_range(ctx, "lookalike-characters", lookalikes().len() as u64, |k, st| {
        let seq = lookalikes()[k as usize].as_bytes();
        for frame in [&b":01007F02FF7F"[..], &b":02000201031FD9\r\n"[..], &b":0000000000"[..]] {
            for pos in 0..=frame.len() {
                for replace in [false, true] {
                    if replace && pos == frame.len() {
                        continue;
                    }
                    let mut s: Vec<u8> = frame[..pos].to_vec();
                    s.extend_from_slice(seq);
                    s.extend_from_slice(&frame[pos + if replace { 1 } else { 0 }..]);
                    check_bytes(&s, st, false).map_err(|m| (json!({"bytes": s}), m))?;
                    // and twice in a row (an even number of "digits")
                    let mut s2: Vec<u8> = frame[..pos].to_vec();
                    s2.extend_from_slice(seq);
                    s2.extend_from_slice(seq);
                    s2.extend_from_slice(&frame[(pos + if replace { 2 } else { 0 }).min(frame.len())..]);
                    check_bytes(&s2, st, false).map_err(|m| (json!({"bytes": s2}), m))?;
                    // one sequence in place of a whole pair of digits (a character that expands to two)
                    if replace && pos + 2 <= frame.len() {
                        let mut s3: Vec<u8> = frame[..pos].to_vec();
                        s3.extend_from_slice(seq);
                        s3.extend_from_slice(&frame[pos + 2..]);
                        check_bytes(&s3, st, false).map_err(|m| (json!({"bytes": s3}), m))?;
                    }
                }
            }
        }
        Ok(())
    });
    ctx.part_done("lookalike-characters", true, json!({"sequences": lookalikes().len(), "what": "each multi-byte look-alike (Unicode digits, fullwidth hex letters/colon, every Unicode white-space character, every character whose case mapping falls into the frame alphabet) replacing one character / a pair / inserted at every position of 3 valid frames, singly and doubled"}));

    // (i-d') every single byte value substituted at / inserted before every position of valid frames (a sign, a space, a
    // control character in place of a digit: whatever a lenient number parser might swallow)
    let bases: Vec<Vec<u8>> = vec![
        b":01007F02FF7F".to_vec(),
        b":02000201031FD9\r\n".to_vec(),
        b":0000000000".to_vec(),
        b":0400100000a0B0c0dC\r\n".to_vec(),
        crate::oracle::hex::ref_encode(0x0A0B, 0x00, &(0..16).collect::<Vec<u8>>()),
    ];
    par_range(ctx, "every-byte-substituted", 256, |b, st| {
        let b = b as u8;
        for frame in &bases {
            for pos in 0..=frame.len() {
                if pos < frame.len() {
                    let mut s = frame.clone();
                    s[pos] = b;
                    check_bytes(&s, st, false).map_err(|m| (json!({"bytes": s}), m))?;
                }
                let mut s = frame.clone();
                s.insert(pos, b);
                check_bytes(&s, st, false).map_err(|m| (json!({"bytes": s}), m))?;
                // two in a row in place of a pair
                if pos + 2 <= frame.len() {
                    let mut s = frame.clone();
                    s[pos] = b;
                    s[pos + 1] = b;
                    check_bytes(&s, st, false).map_err(|m| (json!({"bytes": s}), m))?;
                }
            }
        }
        Ok(())
    });
    ctx.part_done("every-byte-substituted", true, json!("all 256 byte values substituted at (singly and as a pair) / inserted before every position of 5 valid frames"));

    // (i-d'') long well-formed lines: ':' + n hex pairs (+CRLF) for every n up to 5000 and geometrically beyond, with a
    // length field that cannot be right and with one that is right modulo 256: all are length mismatches, however long
    let mut pair_counts: Vec<usize> = (261..=5000).collect();
    let mut n = 5000usize;
    while n < 600_000 {
        n = n * 21 / 20 + 1;
        pair_counts.extend([n, n + 1]);
    }
    let chunks: Vec<Vec<usize>> = pair_counts.chunks(64).map(|c| c.to_vec()).collect();
    par_range(ctx, "long-lines", chunks.len() as u64, |j, st| {
        for &pairs in &chunks[j as usize] {
            // pairs = 4 header bytes + data bytes + checksum
            let data_len = pairs - 5;
            for len_field in [0x10u8, (data_len % 256) as u8] {
                let mut fields: Vec<u8> = Vec::with_capacity(pairs);
                fields.extend_from_slice(&[len_field, 0x12, 0x34, 0x00]);
                fields.extend((0..data_len).map(|k| (k as u8).wrapping_mul(7)));
                let sum = fields.iter().fold(0u8, |a, &b| a.wrapping_add(b));
                fields.push(0u8.wrapping_sub(sum));
                let mut text = Vec::with_capacity(2 * pairs + 3);
                text.push(b':');
                for b in &fields {
                    text.push(b"0123456789ABCDEF"[(b >> 4) as usize]);
                    text.push(b"0123456789abcdef"[(b & 15) as usize]);
                }
                if pairs % 2 == 0 {
                    text.extend_from_slice(b"\r\n");
                }
                check_bytes(&text, st, false).map_err(|m| (json!({"pairs": pairs, "length_field": len_field, "crlf": pairs % 2 == 0}), format!("line of {pairs} hex pairs: {}", &m[m.len().saturating_sub(300)..])))?;
            }
        }
        Ok(())
    });
    ctx.part_done("long-lines", true, json!({"pair_counts": pair_counts.len(), "what": "well-formed lines of 261..=5000 hex pairs (every count) and ~100 counts up to 600000, each with two length fields"}));

    // (i-e) the heaviest frames: 250..=255 data bytes of 0xFF / 0xFE with high address and type bytes (field sums near
    // and beyond 65536), valid, with the checksum off by one, and with the length field off by one
    par_range(ctx, "heaviest-frames", 6, |k, st| {
        let n = 250 + k as usize;
        for fill in [0xFFu8, 0xFE, 0x80] {
            for (addr, ty) in [(0xFFFFu16, 0xFFu8), (0xFF00, 0xFF), (0x0001, 0x00), (0x00FF, 0x01), (0xFFFF, 0x00)] {
                let mut fields: Vec<u8> = vec![n as u8, (addr >> 8) as u8, addr as u8, ty];
                fields.extend(std::iter::repeat(fill).take(n));
                let sum = fields.iter().fold(0u8, |a, &b| a.wrapping_add(b));
                for (dl, dc) in [(0u8, 0u8), (0, 1), (1, 0), (0, 0xFF)] {
                    let mut f = fields.clone();
                    f[0] = f[0].wrapping_add(dl);
                    f.push(0u8.wrapping_sub(sum).wrapping_add(dc));
                    let mut text = vec![b':'];
                    for b in &f {
                        text.extend_from_slice(format!("{b:02X}").as_bytes());
                    }
                    for crlf in [false, true] {
                        let mut t = text.clone();
                        if crlf {
                            t.extend_from_slice(b"\r\n");
                        }
                        check_bytes(&t, st, false).map_err(|m| (json!({"bytes": t}), m))?;
                    }
                }
            }
        }
        Ok(())
    });
    ctx.part_done("heaviest-frames", true, json!("250..=255 data bytes of FF/FE/80 x 5 address/type pairs x {valid, checksum +1, checksum -1, length +1} x {plain, CRLF}"));

    // (i-f) mass probe: very many distinct well-shaped strings with a wrong checksum, decoded while a fixed set of 64
    // valid frames is re-decoded every 4096 probes. Each probe must be rejected as a checksum error. This is the only
    // way generated inputs can meet a decoder that remembers earlier inputs under a lossy key (a memo keyed by a
    // 32-bit hash needs ~2^32/64 probes for one collision); inputs are a counter-mode function of (seed, job, k).
    let warm: Vec<Vec<u8>> = (0..64u64)
        .map(|k| {
            let h = h64(&("c03-warm", ctx.seed, k));
            let n = (h % 7) as usize;
            let data: Vec<u8> = (0..n).map(|i| (h >> (8 * (i + 1))) as u8).collect();
            crate::oracle::hex::ref_encode((h >> 40) as u16, (h >> 56) as u8, &data)
        })
        .collect();
    const PROBES_PER_JOB: u64 = 16_384;
    const UNSHAPED_PER_JOB: u64 = 262_144;
    let jobs = ctx.tier.pick(800u64, 8_000u64);
    par_range(ctx, "mass-bad-checksum", jobs, |job, st| {
        let mut buf: Vec<u8> = Vec::with_capacity(32);
        for w in &warm {
            check_bytes(w, st, false).map_err(|m| (json!({"bytes": w}), m))?;
        }
        let mut x = h64(&("c03-mass", ctx.seed, job));
        for k in 0..PROBES_PER_JOB {
            if k % 4096 == 0 {
                for w in &warm {
                    let _ = Frame::from_bytes(w);
                }
            }
            // splitmix64 step
            x = x.wrapping_add(0x9E37_79B9_7F4A_7C15);
            let mut z = x;
            z = (z ^ (z >> 30)).wrapping_mul(0xBF58_476D_1CE4_E5B9);
            z = (z ^ (z >> 27)).wrapping_mul(0x94D0_49BB_1331_11EB);
            z ^= z >> 31;
            let n = (z & 7).min(5) as usize; // 0..=5 data bytes
            let mut fields = [0u8; 10];
            fields[0] = n as u8;
            fields[1] = (z >> 8) as u8;
            fields[2] = (z >> 16) as u8;
            fields[3] = (z >> 24) as u8;
            for i in 0..n {
                fields[4 + i] = (z.wrapping_mul(0xD6E8_FEB8_6659_FD93) >> (8 * i)) as u8 ^ (k as u8);
            }
            let sum = fields[..4 + n].iter().fold(0u8, |a, &b| a.wrapping_add(b));
            let right = 0u8.wrapping_sub(sum);
            let wrong = right.wrapping_add(1 + ((z >> 3) as u8 % 255));
            fields[4 + n] = wrong;
            buf.clear();
            buf.push(b':');
            for b in &fields[..5 + n] {
                buf.push(b"0123456789ABCDEF"[(b >> 4) as usize]);
                buf.push(b"0123456789ABCDEF"[(b & 15) as usize]);
            }
            let ok = match catch(|| Frame::from_bytes(&buf)) {
                Ok(Err(FrameError::BadChecksum { expected, actual, .. })) => expected == wrong && actual == right,
                _ => false,
            };
            if !ok {
                // the full oracle words the disagreement (and confirms it against the reference parser)
                let mut tmp = Stats::new();
                if let Err(m) = check_bytes(&buf, &mut tmp, false) {
                    return Err((json!({"bytes": buf, "decoded_before": warm}), m));
                }
            }
        }
        // the cheap half: strings that do not even start with a colon (rejected at the first character, so they cost a
        // fraction of a shaped probe and ten times as many fit into the same time)
        for k in 0..UNSHAPED_PER_JOB {
            if k % 65_536 == 0 {
                for w in &warm {
                    let _ = Frame::from_bytes(w);
                }
            }
            x = x.wrapping_add(0x9E37_79B9_7F4A_7C15);
            let mut z = x;
            z = (z ^ (z >> 30)).wrapping_mul(0xBF58_476D_1CE4_E5B9);
            z = (z ^ (z >> 27)).wrapping_mul(0x94D0_49BB_1331_11EB);
            z ^= z >> 31;
            let mut raw = [0u8; 12];
            raw[..8].copy_from_slice(&z.to_le_bytes());
            raw[8..].copy_from_slice(&(x as u32).to_le_bytes());
            if raw[0] == b':' {
                raw[0] = b';';
            }
            let n = 7 + (z >> 61) as usize % 6; // 7..=12 bytes
            let ok = matches!(catch(|| Frame::from_bytes(&raw[..n])), Ok(Err(FrameError::InvalidFrame { .. })));
            if !ok {
                let mut tmp = Stats::new();
                if let Err(m) = check_bytes(&raw[..n], &mut tmp, false) {
                    return Err((json!({"bytes": raw[..n].to_vec(), "decoded_before": warm}), m));
                }
            }
        }
        st.evals(PROBES_PER_JOB + UNSHAPED_PER_JOB);
        st.nontrivial_enumerated(PROBES_PER_JOB);
        st.class_n("mass:bad-checksum", PROBES_PER_JOB);
        st.class_n("mass:no-colon", UNSHAPED_PER_JOB);
        Ok(())
    });
    ctx.part_done(
        "mass-bad-checksum",
        false,
        json!({"shaped_probes": jobs * PROBES_PER_JOB, "unshaped_probes": jobs * UNSHAPED_PER_JOB, "what": "distinct well-shaped strings (0..=5 data bytes) with a wrong checksum, each expected to be rejected as BadChecksum with the right numbers, and 16 times as many distinct 7..12-byte strings without a leading colon, each expected to be rejected as InvalidFrame; interleaved with 64 valid frames that are re-decoded every few thousand probes"}),
    );

    // (ii) grammar based ------------------------------------------------------------------
    run_generated(ctx, "grammar", ctx.tier.pick(1_000_000, 20_000_000), grammar_strategy, |c, st| {
        st.class("grammar-cases");
        // a Frame::write that failed on this thread just before must not influence the decoder
        let mut sink = crate::io::port::TestPort::new(vec![]);
        sink.st.borrow_mut().write_script = vec![crate::io::port::WriteStep::Accept(5), crate::io::port::WriteStep::Error(std::io::ErrorKind::BrokenPipe)];
        let _ = flipdot_core::Frame::new(flipdot_core::Address(0x1234), flipdot_core::MsgType(9), flipdot_core::Data::try_new(vec![1u8, 2, 3]).unwrap()).write(&mut sink);
        check_bytes(&c.bytes, st, true)
    });
    // generator health: each class the check relies on must be well represented
    if !ctx.stopped() {
        let total = ctx.class_count("grammar-cases").max(1);
        for cl in ["grammar:accepted", "grammar:length-mismatch", "grammar:bad-checksum", "invalid-near"] {
            let n = ctx.class_count(cl);
            if n * 20 < total {
                ctx.inconclusive(format!("generator health: class {cl} has only {n} of {total} grammar cases (< 5 %)"));
            }
        }
    }

    // (ii') the same generators with a logger installed at Trace level (whatever the decoder logs about a rejected text -
    // a preview, a count - must not change the verdict or panic), after a reader and a writer panicked inside
    // Frame::read / Frame::write
    crate::props::c15::panic_inside_io();
    crate::engine::with_logging(|| {
        run_generated(ctx, "grammar+logging", ctx.tier.pick(150_000, 2_000_000), grammar_strategy, |c, st| {
            crate::props::c15::panic_inside_io_sometimes();
            check_bytes(&c.bytes, st, false)
        });
        run_generated(
            ctx,
            "random-bytes+logging",
            ctx.tier.pick(60_000, 600_000),
            || {
                // long texts with multi-byte and invalid UTF-8 sequences at every alignment
                (proptest::collection::vec(prop_oneof![3 => 0x20u8..0x7F, 1 => any::<u8>(), 1 => Just(0xFFu8), 1 => Just(0xE2u8), 1 => Just(0x82u8), 1 => Just(0xACu8)], 0..200), any::<bool>()).prop_map(|(mut bytes, colon)| {
                    if colon {
                        bytes.insert(0, b':');
                    }
                    BytesCase { bytes }
                })
            },
            |c, st| check_bytes(&c.bytes, st, false),
        );
    });

    // (iii) plain random bytes (cheap totality check; almost always "invalid-far")
    run_generated(
        ctx,
        "random-bytes",
        ctx.tier.pick(50_000, 1_000_000),
        || proptest::collection::vec(any::<u8>(), 0..600).prop_map(|bytes| BytesCase { bytes }),
        |c, st| check_bytes(&c.bytes, st, false),
    );
}

pub fn replay(part: &str, case: &Value) -> Result<(), String> {
    if part.ends_with("+logging") {
        crate::props::c15::panic_inside_io();
        return crate::engine::with_logging(|| replay("", case));
    }
    let mut st = Stats::new();
    if let (Some(pairs), Some(len_field)) = (case.get("pairs").and_then(|v| v.as_u64()), case.get("length_field").and_then(|v| v.as_u64())) {
        let pairs = pairs as usize;
        let data_len = pairs.saturating_sub(5);
        let mut fields: Vec<u8> = vec![len_field as u8, 0x12, 0x34, 0x00];
        fields.extend((0..data_len).map(|k| (k as u8).wrapping_mul(7)));
        let sum = fields.iter().fold(0u8, |a, &b| a.wrapping_add(b));
        fields.push(0u8.wrapping_sub(sum));
        let mut text = vec![b':'];
        for b in &fields {
            text.push(b"0123456789ABCDEF"[(b >> 4) as usize]);
            text.push(b"0123456789abcdef"[(b & 15) as usize]);
        }
        if case.get("crlf").and_then(|v| v.as_bool()).unwrap_or(false) {
            text.extend_from_slice(b"\r\n");
        }
        return check_bytes(&text, &mut st, false);
    }
    let c: BytesCase = serde_json::from_value(case.clone()).map_err(|e| format!("bad case: {e}"))?;
    // strings this process decoded before the failing one (mass probe)
    if let Some(before) = case.get("decoded_before").and_then(|v| v.as_array()) {
        for b in before {
            if let Ok(bytes) = serde_json::from_value::<Vec<u8>>(b.clone()) {
                let _ = catch(|| Frame::from_bytes(&bytes));
            }
        }
    }
    check_bytes(&c.bytes, &mut st, false)
}

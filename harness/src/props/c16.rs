//! C16 — serial bus: one frame out per message, one frame in exactly when a reply is due.

use std::io;

use flipdot_core::SignBus;
use flipdot_serial::SerialSignBus;
use proptest::prelude::*;
use serde::{Deserialize, Serialize};
use serde_json::{json, Value};

use crate::engine::{catch, h64, show_bytes, Ctx, Stats};
use crate::io::port::{Exhausted, PortState, ReadStep, TestPort, WriteStep};
use crate::oracle::hex::{ref_decode, ref_encode, RefDecode};
use crate::props::c01::{addr_strategy, byte_strategy};
use crate::props::c15::IoKind;
use crate::repr::{ref_classify, M};

pub const RULE: &str = "exchanges = (message, reply tape, port faults): every message kind (including Unknown frames and the sign-side kinds ReportState/AckOperation) with parameters sampled across their ranges x a reply tape of 0..3 lines (frames of known messages, unknown frames, malformed text, nothing = timeout/EOF) plus trailing bytes x {no fault, short writes, Interrupted writes, Ok(0) or a hard write error at call k, fragmented reads, a hard read error at call k} on an instrumented port. Oracle: bytes written = exactly the message's frame encoding with CRLF (built from the protocol table by the harness), all writes before any read; a reply is read - exactly one line - if and only if the message is Hello/QueryState/RequestOperation and the result is the table interpretation of that line or an error if it does not decode / the read fails / nothing arrives; otherwise Ok(None) with zero read calls; a write failure gives Err and no read. Sessions of 1..6 messages on ONE bus instance over a tape of valid, unknown and undecodable reply lines check the same per exchange with cumulative byte accounting (state kept across calls must not leak from a bad reply into the next exchange). Non-trivial = (message kind, reply class, fault point) triples other than (non-expecting kind, empty tape, no fault); distinct by hash of the case";
pub const ASSUMPTIONS: &[&str] = &[
    "expected wire bytes and reply interpretation come from the harness's protocol table and reference Intel-HEX codec, not from flipdot's conversions",
    "pacing sleeps are real (C18 measures them); cases run on 64 threads so sleeping costs no CPU",
];

#[derive(Serialize, Deserialize, Debug, Clone, PartialEq, Eq, Hash)]
pub enum Line {
    Msg(M),
    Raw(Vec<u8>),
}

#[derive(Serialize, Deserialize, Debug, Clone, PartialEq, Eq, Hash)]
pub enum PortFault {
    None,
    ShortWrites(usize),
    WriteInterrupted(usize),
    WriteZero(usize),
    WriteError(usize, IoKind),
    ReadFragments(usize),
    ReadInterrupted(usize),
    ReadError(usize, IoKind),
}

#[derive(Serialize, Deserialize, Debug, Clone, PartialEq, Eq, Hash)]
pub struct ExchangeCase {
    pub msg: M,
    pub tape: Vec<Line>,
    /// lines are terminated by CRLF (true) or bare LF (false)
    pub crlf: bool,
    pub trailing: Vec<u8>,
    pub fault: PortFault,
    pub timeout_at_end: bool,
}

pub fn wire_of(m: &M) -> Vec<u8> {
    let (a, t, d) = m.ref_frame();
    ref_encode(a, t, &d)
}

fn tape_bytes(c: &ExchangeCase) -> (Vec<u8>, Option<usize>) {
    let mut tape = vec![];
    let mut first_end = None;
    for l in &c.tape {
        match l {
            Line::Msg(m) => tape.extend_from_slice(&wire_of(m)),
            Line::Raw(b) => tape.extend(b.iter().filter(|&&x| x != b'\n')),
        }
        tape.extend_from_slice(if c.crlf { b"\r\n" } else { b"\n" });
        if first_end.is_none() {
            first_end = Some(tape.len());
        }
    }
    tape.extend_from_slice(&c.trailing);
    if first_end.is_none() {
        first_end = tape.iter().position(|&b| b == b'\n').map(|i| i + 1);
    }
    (tape, first_end)
}

pub fn reply_expected(m: &M) -> bool {
    matches!(m, M::Hello(_) | M::Query(_) | M::Req(_, _))
}

pub fn make_port(c: &ExchangeCase) -> (TestPort, Vec<u8>, Option<usize>) {
    let (tape, first_end) = tape_bytes(c);
    let mut state = PortState::new(tape.clone());
    state.on_exhausted = if c.timeout_at_end { Exhausted::TimedOut } else { Exhausted::Eof };
    state.call_cap = 20_000;
    match &c.fault {
        PortFault::None => {}
        PortFault::ShortWrites(n) => state.write_script = vec![WriteStep::Accept((*n).max(1)); 4000],
        PortFault::WriteInterrupted(k) => {
            state.write_script = vec![WriteStep::Accept(3); *k];
            state.write_script.push(WriteStep::Interrupted);
            state.write_script.push(WriteStep::Interrupted);
        }
        PortFault::WriteZero(k) => {
            state.write_script = vec![WriteStep::Accept(2); *k];
            state.write_script.push(WriteStep::Zero);
        }
        PortFault::WriteError(k, kind) => {
            state.write_script = vec![WriteStep::Accept(2); *k];
            state.write_script.push(WriteStep::Error(kind_of(kind)));
        }
        PortFault::ReadFragments(n) => state.read_script = vec![ReadStep::Serve((*n).max(1)); 4000],
        PortFault::ReadInterrupted(k) => {
            state.read_script = vec![ReadStep::Serve(1); *k];
            state.read_script.push(ReadStep::Interrupted);
        }
        PortFault::ReadError(k, kind) => {
            state.read_script = vec![ReadStep::Serve(1); *k];
            state.read_script.push(ReadStep::Error(kind_of(kind)));
        }
    }
    (TestPort::with_state(state), tape, first_end)
}

fn kind_of(k: &IoKind) -> io::ErrorKind {
    match k {
        IoKind::Other => io::ErrorKind::Other,
        IoKind::TimedOut => io::ErrorKind::TimedOut,
        IoKind::WouldBlock => io::ErrorKind::WouldBlock,
        IoKind::UnexpectedEof => io::ErrorKind::UnexpectedEof,
        IoKind::BrokenPipe => io::ErrorKind::BrokenPipe,
    }
}

pub fn check_exchange(c: &ExchangeCase, st: &mut Stats) -> Result<(), String> {
    let (port, tape, _first_end) = make_port(c);
    let h = port.handle();
    let mut bus = SerialSignBus::try_new(port).map_err(|e| format!("SerialSignBus::try_new failed on a cooperative port: {e}"))?;
    let message = c.msg.to_message();
    let result = catch(|| bus.process_message(message).map(|r| r.map(|m| M::from_message(&m))).map_err(|e| e.to_string()))
        .map_err(|p| format!("SerialSignBus::process_message({}) panicked: {p}", c.msg.short()))?;
    st.eval();
    let s = h.borrow();
    if s.cap_hit {
        return Err("the serial bus keeps calling the port without making progress (call cap reached)".into());
    }
    let mut want_wire = wire_of(&c.msg);
    want_wire.extend_from_slice(b"\r\n");
    let write_failed = s.write_calls.iter().any(|r| match r.result {
        Err(k) => k != io::ErrorKind::Interrupted,
        Ok(0) => r.offered > 0,
        _ => false,
    });
    let read_failed = s.read_calls.iter().any(|r| matches!(r.result, Err(k) if k != io::ErrorKind::Interrupted));
    // all writes precede all reads
    if let Some(first_r) = s.order.iter().position(|&x| x == b'r') {
        if s.order[first_r..].iter().any(|&x| x == b'w') {
            return Err(format!("{}: the port was written to after the reply had started to be read", c.msg.short()));
        }
    }
    if write_failed {
        if result.is_ok() {
            return Err(format!("{}: the port's write failed but process_message returned {:?}", c.msg.short(), result));
        }
        if !s.read_calls.is_empty() {
            return Err(format!("{}: a reply was read although writing the message failed", c.msg.short()));
        }
        if !want_wire.starts_with(&s.written) {
            return Err(format!("{}: after a failed write the port holds {}, not a prefix of the frame", c.msg.short(), show_bytes(&s.written)));
        }
        st.class("write-failed");
        return Ok(());
    }
    if s.written != want_wire {
        return Err(format!(
            "{}: the port received {} instead of exactly {}",
            c.msg.short(),
            show_bytes(&s.written),
            show_bytes(&want_wire)
        ));
    }
    if !reply_expected(&c.msg) {
        if !s.read_calls.is_empty() {
            return Err(format!("{}: no reply is due but the bus read from the port ({} read calls)", c.msg.short(), s.read_calls.len()));
        }
        match result {
            Ok(None) => {}
            other => return Err(format!("{}: no reply is due but process_message returned {:?}", c.msg.short(), other)),
        }
        st.class("no-reply-due");
    } else {
        if read_failed {
            if result.is_ok() {
                return Err(format!("{}: the port's read failed but process_message returned {:?}", c.msg.short(), result));
            }
            st.class("reply-read-failed");
        } else {
            let line_end = tape.iter().position(|&b| b == b'\n').map(|i| i + 1).unwrap_or(tape.len());
            if s.pos != line_end {
                return Err(format!(
                    "{}: the bus consumed {} bytes of the reply stream {} but exactly one line ends at {}",
                    c.msg.short(),
                    s.pos,
                    show_bytes(&tape),
                    line_end
                ));
            }
            let line = &tape[..line_end];
            let want: Result<Option<M>, ()> = match ref_decode(line) {
                RefDecode::Ok { addr, ty, data } => Ok(Some(ref_classify(addr, ty, &data))),
                _ => Err(()),
            };
            match (&result, &want) {
                (Ok(got), Ok(w)) => {
                    if got != w {
                        return Err(format!(
                            "{}: reply line {} was returned as {:?}, the table says {:?}",
                            c.msg.short(),
                            show_bytes(line),
                            got.as_ref().map(|m| m.short()),
                            w.as_ref().map(|m| m.short())
                        ));
                    }
                    st.class("reply-decoded");
                }
                (Err(_), Err(())) => st.class("reply-undecodable-or-missing"),
                (Ok(got), Err(())) => {
                    return Err(format!(
                        "{}: the reply line {} does not decode (or nothing arrived) but process_message returned {:?} instead of an error",
                        c.msg.short(),
                        show_bytes(line),
                        got.as_ref().map(|m| m.short())
                    ))
                }
                (Err(e), Ok(w)) => {
                    return Err(format!(
                        "{}: the reply line {} decodes to {:?} but process_message failed: {e}",
                        c.msg.short(),
                        show_bytes(line),
                        w.as_ref().map(|m| m.short())
                    ))
                }
            }
        }
    }
    let trivial = !reply_expected(&c.msg) && c.tape.is_empty() && c.fault == PortFault::None;
    if !trivial {
        st.nontrivial(h64(c));
    }
    if st.want_sample() && reply_expected(&c.msg) && !c.tape.is_empty() && c.fault != PortFault::None {
        st.sample(json!({"message": c.msg.short(), "reply_stream": show_bytes(&tape), "fault": format!("{:?}", c.fault), "result": format!("{:?}", result.as_ref().map(|r| r.as_ref().map(|m| m.short())))}));
    }
    Ok(())
}

// ---------------------------------------------------------------------------------------
// sessions: several exchanges on ONE bus instance (state kept across calls must not leak)

#[derive(Serialize, Deserialize, Debug, Clone, PartialEq, Eq, Hash)]
pub struct SessionCase {
    pub msgs: Vec<M>,
    pub tape: Vec<Line>,
    pub crlf: bool,
    pub timeout_at_end: bool,
    /// a hard read error at this read-call index of the whole session (the exchange it hits must fail; the bus stays usable)
    #[serde(default)]
    pub read_error_at: Option<usize>,
}

pub fn check_session(c: &SessionCase, st: &mut Stats) -> Result<(), String> {
    let as_exchange = ExchangeCase { msg: M::Count(0), tape: c.tape.clone(), crlf: c.crlf, trailing: vec![], fault: PortFault::None, timeout_at_end: c.timeout_at_end };
    let (port, tape, _) = make_port(&as_exchange);
    let h = port.handle();
    if let Some(k) = c.read_error_at {
        let mut s = h.borrow_mut();
        s.read_script = vec![ReadStep::Serve(1); k];
        // (the kind varies with the index: a timeout is an error like any other, the bus stays usable after all of them)
        s.read_script.push(ReadStep::Error([io::ErrorKind::Other, io::ErrorKind::TimedOut, io::ErrorKind::WouldBlock, io::ErrorKind::UnexpectedEof, io::ErrorKind::BrokenPipe][k % 5]));
    }
    let mut bus = SerialSignBus::try_new(port).map_err(|e| format!("SerialSignBus::try_new failed on a cooperative port: {e}"))?;
    let mut want_written: Vec<u8> = vec![];
    let mut want_pos = 0usize;
    let mut after_bad_reply = false;
    let mut interesting = false;
    for (i, m) in c.msgs.iter().enumerate() {
        let reads_before = h.borrow().read_calls.len();
        let result = catch(|| bus.process_message(m.to_message()).map(|r| r.map(|x| M::from_message(&x))).map_err(|e| e.to_string()))
            .map_err(|p| format!("exchange {i}: process_message({}) panicked: {p}", m.short()))?;
        st.eval();
        let s = h.borrow();
        want_written.extend_from_slice(&wire_of(m));
        want_written.extend_from_slice(b"\r\n");
        if s.written != want_written {
            return Err(format!(
                "exchange {i} ({}): the port has received {} in total, expected {}",
                m.short(),
                show_bytes(&s.written),
                show_bytes(&want_written)
            ));
        }
        if !reply_expected(m) {
            if s.pos != want_pos {
                return Err(format!("exchange {i} ({}): no reply is due but the bus read {} bytes", m.short(), s.pos - want_pos));
            }
            if result != Ok(None) {
                return Err(format!("exchange {i} ({}): no reply is due but process_message returned {result:?}", m.short()));
            }
            continue;
        }
        let line_end = tape[want_pos..].iter().position(|&b| b == b'\n').map(|k| want_pos + k + 1).unwrap_or(tape.len());
        let line = &tape[want_pos..line_end];
        let read_failed_now = s.read_calls.iter().skip(reads_before).any(|r| matches!(r.result, Err(k) if k != io::ErrorKind::Interrupted));
        if read_failed_now {
            if result.is_ok() {
                return Err(format!("exchange {i} ({}): the port's read failed but process_message returned {result:?}", m.short()));
            }
            if s.pos > line_end {
                return Err(format!("exchange {i} ({}): the bus read past the end of the reply line", m.short()));
            }
            // the rest of the interrupted line is still in the stream: the next reply-expecting exchange starts there
            want_pos = s.pos;
            after_bad_reply = true;
            continue;
        }
        if s.pos != line_end {
            return Err(format!(
                "exchange {i} ({}): the bus is at offset {} of the reply stream {}, exactly one more line ends at {line_end}",
                m.short(),
                s.pos,
                show_bytes(&tape)
            ));
        }
        let exhausted_timeout = line.is_empty() && c.timeout_at_end;
        let want: Result<Option<M>, ()> = match ref_decode(line) {
            RefDecode::Ok { addr, ty, data } if !exhausted_timeout => Ok(Some(ref_classify(addr, ty, &data))),
            _ => Err(()),
        };
        match (&result, &want) {
            (Ok(got), Ok(w)) if got == w => {
                if after_bad_reply {
                    interesting = true;
                    st.class("session:valid-reply-after-a-bad-one");
                }
            }
            (Err(_), Err(())) => after_bad_reply = true,
            _ => {
                return Err(format!(
                    "exchange {i} ({}): reply line {} -> process_message returned {:?}, expected {:?}{}",
                    m.short(),
                    show_bytes(line),
                    result.as_ref().map(|r| r.as_ref().map(|x| x.short())),
                    want.as_ref().map(|r| r.as_ref().map(|x| x.short())),
                    if after_bad_reply { " (an earlier reply on this bus was undecodable)" } else { "" }
                ))
            }
        }
        want_pos = line_end;
    }
    if c.msgs.len() >= 2 {
        st.nontrivial(h64(c));
    }
    st.class("session");
    if st.want_sample() && interesting {
        st.sample(json!({"session": c.msgs.iter().map(|m| m.short()).collect::<Vec<_>>(), "reply_stream": show_bytes(&tape)}));
    }
    Ok(())
}

pub fn session_strategy() -> impl Strategy<Value = SessionCase> {
    let msg = prop_oneof![
        3 => addr_strategy().prop_map(M::Hello),
        3 => addr_strategy().prop_map(M::Query),
        4 => (addr_strategy(), 0u8..6).prop_map(|(a, o)| M::Req(a, o)),
        1 => addr_strategy().prop_map(M::Goodbye),
        1 => addr_strategy().prop_map(M::PixelsComplete),
        1 => any::<u16>().prop_map(M::Count),
        // look-alike neighbours: unpaced messages over a three-letter alphabet, so that consecutive messages of one
        // session often agree in address, type, length and byte sum (or in a prefix / suffix) and still differ
        3 => (0u16..2, 9u8..11, proptest::collection::vec(1u8..4, 2..=4)).prop_map(|(addr, ty, data)| M::Unknown { addr, ty, data }),
    ];
    let line = prop_oneof![
        6 => (addr_strategy(), prop_oneof![8 => 0u8..8, 1 => 8u8..13]).prop_map(|(a, s)| Line::Msg(M::Report(a, s))),
        4 => (addr_strategy(), 0u8..6).prop_map(|(a, o)| Line::Msg(M::Ack(a, o))),
        1 => Just(Line::Raw(vec![])),
        1 => Just(Line::Raw(b":0100030407F0".to_vec())),
        1 => Just(Line::Raw(b":0200030407F1".to_vec())),
        1 => Just(Line::Raw(b"noise".to_vec())),
        1 => proptest::collection::vec(any::<u8>(), 0..12).prop_map(Line::Raw),
        1 => proptest::sample::select(vec![254usize, 255]).prop_map(|n| Line::Msg(M::Data { off: 0x20, data: vec![0x5A; n] })),
        1 => proptest::sample::select(vec![250usize, 255]).prop_map(|n| Line::Msg(M::Unknown { addr: 9, ty: 0x77, data: vec![0x11; n] })),
    ];
    (
        proptest::collection::vec(msg, 1..=6),
        proptest::collection::vec(line, 0..=7),
        prop_oneof![5 => Just(true), 1 => Just(false)],
        any::<bool>(),
        prop_oneof![3 => Just(None), 1 => (0usize..60).prop_map(Some)],
    )
        .prop_map(|(msgs, tape, crlf, timeout_at_end, read_error_at)| SessionCase { msgs, tape, crlf, timeout_at_end, read_error_at })
}

// ---------------------------------------------------------------------------------------

pub fn any_msg_strategy() -> impl Strategy<Value = M> {
    let a = addr_strategy;
    prop_oneof![
        3 => a().prop_map(M::Hello),
        3 => a().prop_map(M::Query),
        2 => a().prop_map(M::Goodbye),
        2 => a().prop_map(M::PixelsComplete),
        6 => (a(), 0u8..6).prop_map(|(a, o)| M::Req(a, o)),
        2 => (a(), 0u8..13).prop_map(|(a, s)| M::Report(a, s)),
        2 => (a(), 0u8..6).prop_map(|(a, o)| M::Ack(a, o)),
        2 => any::<u16>().prop_map(M::Count),
        // data chunks sleep 30 ms each: keep them a minority
        1 => (a(), proptest::collection::vec(byte_strategy(), 0..=20)).prop_map(|(off, data)| M::Data { off, data }),
        2 => (a(), 7u8..=255, proptest::collection::vec(byte_strategy(), 0..=5)).prop_map(|(addr, ty, data)| M::Unknown { addr, ty, data }),
        1 => (a(), 1u8..=6, proptest::collection::vec(byte_strategy(), 2..=4)).prop_map(|(addr, ty, data)| M::Unknown { addr, ty, data }),
        // maximal and near-maximal frames (unknown type: the serial bus does not pace them)
        1 => (a(), 7u8..=255, proptest::sample::select(vec![253usize, 254, 255])).prop_map(|(addr, ty, n)| M::Unknown { addr, ty, data: vec![0xC3; n] }),
    ]
}

fn reply_line_strategy() -> impl Strategy<Value = Line> {
    let a = addr_strategy;
    prop_oneof![
        // in-progress reports sleep 100 ms: states 8 and 10 are drawn like any other state (2/13)
        8 => (a(), 0u8..13).prop_map(|(a, s)| Line::Msg(M::Report(a, s))),
        5 => (a(), 0u8..6).prop_map(|(a, o)| Line::Msg(M::Ack(a, o))),
        2 => any_msg_strategy().prop_map(Line::Msg),
        1 => Just(Line::Raw(vec![])),
        1 => (addr_strategy(), proptest::sample::select(vec![127usize, 254, 255])).prop_map(|(a, n)| Line::Msg(M::Data { off: a, data: vec![0xA5; n] })),
        1 => Just(Line::Raw(b":01000304FF".to_vec())),
        1 => Just(Line::Raw(b":0100030407F0".to_vec())),
        1 => Just(Line::Raw(b":0200030407F1".to_vec())),
        2 => proptest::collection::vec(any::<u8>(), 0..16).prop_map(Line::Raw),
        // a well-formed reply with one character replaced (a digit, a letter of the other case, a sign, a space ...)
        3 => (prop_oneof![(a(), 0u8..13).prop_map(|(a, s)| M::Report(a, s)), (a(), 0u8..6).prop_map(|(a, o)| M::Ack(a, o))], any::<u16>(), proptest::sample::select(b"0123456789ABCDEFabcdef:G\r +-_xX".to_vec())).prop_map(|(m, sel, ch)| {
            let mut w = wire_of(&m);
            let i = crate::engine::pick_idx(sel, w.len());
            w[i] = ch;
            Line::Raw(w)
        }),
    ]
}

fn fault_strategy() -> impl Strategy<Value = PortFault> {
    let kind = || proptest::sample::select(vec![IoKind::Other, IoKind::TimedOut, IoKind::WouldBlock, IoKind::BrokenPipe]);
    prop_oneof![
        8 => Just(PortFault::None),
        2 => (1usize..6).prop_map(PortFault::ShortWrites),
        1 => (0usize..6).prop_map(PortFault::WriteInterrupted),
        1 => (0usize..8).prop_map(PortFault::WriteZero),
        2 => ((0usize..8), kind()).prop_map(|(k, e)| PortFault::WriteError(k, e)),
        2 => (1usize..40).prop_map(PortFault::ReadFragments),
        1 => (0usize..14).prop_map(PortFault::ReadInterrupted),
        2 => ((0usize..16), kind()).prop_map(|(k, e)| PortFault::ReadError(k, e)),
    ]
}

pub fn exchange_strategy() -> impl Strategy<Value = ExchangeCase> {
    (
        any_msg_strategy(),
        proptest::collection::vec(reply_line_strategy(), 0..=3),
        prop_oneof![4 => Just(true), 1 => Just(false)],
        prop_oneof![3 => Just(vec![]), 1 => proptest::collection::vec(any::<u8>(), 0..8)],
        fault_strategy(),
        any::<bool>(),
    )
        .prop_map(|(msg, tape, crlf, trailing, fault, timeout_at_end)| ExchangeCase { msg, tape, crlf, trailing, fault, timeout_at_end })
}

pub fn run(ctx: &Ctx) {
    // systematic part: every message kind x every reply class, no fault / each fault family
    let mut cases: Vec<ExchangeCase> = vec![];
    let mut msgs: Vec<M> = vec![M::Hello(3), M::Query(0xFFFF), M::Goodbye(3), M::PixelsComplete(0x100), M::Count(7), M::Report(3, 2), M::Ack(3, 1)];
    for o in 0..6 {
        msgs.push(M::Req(0x1234, o));
    }
    msgs.push(M::Data { off: 16, data: vec![1, 2, 3] });
    msgs.push(M::Data { off: 0, data: vec![] });
    msgs.push(M::Unknown { addr: 9, ty: 0x42, data: vec![1] });
    let mut replies: Vec<Vec<Line>> = vec![vec![]];
    for s in 0..13 {
        replies.push(vec![Line::Msg(M::Report(3, s))]);
    }
    for o in 0..6 {
        replies.push(vec![Line::Msg(M::Ack(0x1234, o)), Line::Msg(M::Report(3, 0))]);
    }
    replies.push(vec![Line::Msg(M::Unknown { addr: 1, ty: 0x77, data: vec![] })]);
    replies.push(vec![Line::Raw(b"garbage".to_vec())]);
    replies.push(vec![Line::Raw(vec![])]);
    let faults = [
        PortFault::None,
        PortFault::ShortWrites(1),
        PortFault::WriteError(0, IoKind::Other),
        PortFault::WriteError(3, IoKind::BrokenPipe),
        PortFault::WriteZero(1),
        PortFault::ReadError(0, IoKind::Other),
        PortFault::ReadError(5, IoKind::TimedOut),
        PortFault::ReadFragments(64),
    ];
    for m in &msgs {
        for r in &replies {
            for f in &faults {
                // keep the sleeping combinations in, but only once per fault family
                cases.push(ExchangeCase { msg: m.clone(), tape: r.clone(), crlf: true, trailing: b"Z".to_vec(), fault: f.clone(), timeout_at_end: false });
            }
        }
    }
    let n = cases.len();
    let next = std::sync::atomic::AtomicUsize::new(0);
    std::thread::scope(|sc| {
        for _ in 0..64 {
            let cases = &cases;
            let next = &next;
            sc.spawn(move || {
                let mut st = Stats::new();
                loop {
                    let i = next.fetch_add(1, std::sync::atomic::Ordering::Relaxed);
                    if i >= cases.len() || ctx.stopped() {
                        break;
                    }
                    if let Err(m) = check_exchange(&cases[i], &mut st) {
                        ctx.fail("kinds-x-replies-x-faults", serde_json::to_value(&cases[i]).unwrap(), m);
                        break;
                    }
                }
                ctx.merge("kinds-x-replies-x-faults", st);
            });
        }
    });
    ctx.part_done("kinds-x-replies-x-faults", true, json!({"messages": msgs.len(), "reply_tapes": replies.len(), "faults": faults.len(), "cases": n}));

    // sessions: every ordered pair (bad reply kind, then a valid reply) on one bus, then generated sessions
    let bad: Vec<Line> = vec![Line::Raw(vec![]), Line::Raw(b"noise".to_vec()), Line::Raw(b":0100030407F0".to_vec()), Line::Raw(b":0200030407F1".to_vec()), Line::Raw(b":01000304".to_vec())];
    let mut sessions: Vec<SessionCase> = vec![];
    for b in &bad {
        for first in [M::Hello(3), M::Query(3), M::Req(3, 1)] {
            for second in [M::Hello(3), M::Query(3), M::Req(3, 4)] {
                let reply2 = if let M::Req(a, o) = &second { M::Ack(*a, *o) } else { M::Report(3, 2) };
                sessions.push(SessionCase {
                    msgs: vec![first.clone(), M::Count(1), second.clone(), M::Query(3)],
                    tape: vec![b.clone(), Line::Msg(reply2), Line::Msg(M::Report(3, 7))],
                    crlf: true,
                    timeout_at_end: false,
                    read_error_at: None,
                });
            }
        }
    }
    for n in [253usize, 254, 255] {
        for first in [M::Hello(3), M::Req(3, 0)] {
            sessions.push(SessionCase {
                msgs: vec![first.clone(), M::Query(3), M::Query(3)],
                tape: vec![Line::Msg(M::Data { off: 0, data: vec![0xEE; n] }), Line::Msg(M::Report(3, 2)), Line::Msg(M::Unknown { addr: 1, ty: 9, data: vec![7; n] })],
                crlf: true,
                timeout_at_end: false,
                read_error_at: None,
            });
        }
    }
    {
        let mut st = Stats::new();
        for c in &sessions {
            if let Err(m) = check_session(c, &mut st) {
                ctx.fail("session-bad-then-good", serde_json::to_value(c).unwrap(), m);
                break;
            }
        }
        ctx.merge("session-bad-then-good", st);
        ctx.part_done("session-bad-then-good", true, json!({"sessions": sessions.len(), "what": "5 kinds of undecodable reply x 3 first messages x 3 second messages, then valid replies, on one bus instance"}));
    }
    // twin trains: consecutive messages on one bus that agree in everything a digest might look at - address, type,
    // length, byte sum, xor, multiset of bytes, first and last bytes - and still differ. Each must go out as itself.
    {
        let mut st = Stats::new();
        let mut trains: Vec<SessionCase> = vec![];
        for n in [2usize, 3, 5, 16, 17, 64, 255] {
            let base: Vec<u8> = (0..n).map(|i| (i as u8).wrapping_mul(37).wrapping_add(11)).collect();
            let mut twins: Vec<Vec<u8>> = vec![];
            let mut t = base.clone();
            t.swap(0, n - 1);
            twins.push(t); // same multiset
            let mut t = base.clone();
            t[0] = t[0].wrapping_add(1);
            t[n - 1] = t[n - 1].wrapping_sub(1);
            twins.push(t); // same sum
            let mut t = base.clone();
            t[0] ^= 0x40;
            t[n - 1] ^= 0x40;
            twins.push(t); // same xor
            if n >= 3 {
                let mut t = base.clone();
                t[n / 2] ^= 0xFF;
                twins.push(t); // same first and last bytes
                let mut t = base.clone();
                t.reverse();
                twins.push(t);
            }
            for tw in &twins {
                if *tw == base {
                    continue;
                }
                for (addr, ty) in [(0x10u16, 9u8), (0xFFFF, 0xFE)] {
                    let m = |d: &Vec<u8>| M::Unknown { addr, ty, data: d.clone() };
                    trains.push(SessionCase { msgs: vec![m(&base), m(tw), m(&base), m(tw), m(tw)], tape: vec![], crlf: true, timeout_at_end: false, read_error_at: None });
                }
                if n <= 17 {
                    // the same as data chunks (30 ms each: only the short ones)
                    let m = |d: &Vec<u8>| M::Data { off: 0x10, data: d.clone() };
                    trains.push(SessionCase { msgs: vec![m(&base), m(tw), m(&base)], tape: vec![], crlf: true, timeout_at_end: false, read_error_at: None });
                }
            }
        }
        // fixed-size messages that differ only in the address / the one data byte, alternating
        for (a, b) in [(M::Hello(3), M::Query(3)), (M::Query(3), M::Query(0x0300)), (M::Req(3, 1), M::Req(3, 2)), (M::Goodbye(5), M::PixelsComplete(5)), (M::Count(0x0102), M::Count(0x0201))] {
            let tape = if reply_expected(&a) { vec![Line::Msg(M::Report(3, 2)); 4] } else { vec![] };
            trains.push(SessionCase { msgs: vec![a.clone(), b.clone(), a.clone(), b.clone()], tape, crlf: true, timeout_at_end: false, read_error_at: None });
        }
        let n_trains = trains.len();
        for c in &trains {
            if let Err(m) = check_session(c, &mut st) {
                ctx.fail("session-twin-trains", serde_json::to_value(c).unwrap(), m);
                break;
            }
            st.nontrivial(crate::engine::h64(c));
        }
        ctx.merge("session-twin-trains", st);
        ctx.part_done("session-twin-trains", true, json!({"sessions": n_trains, "what": "consecutive messages on one bus instance that agree in address, type, length and in byte sum / xor / multiset / first and last bytes, and differ: each must be written as itself"}));
    }
    // reply look-alikes: after a reply P, the next line begins like P's text (or is P's text slightly altered). What a
    // bus object remembers about earlier replies must not colour the decoding of the next line.
    {
        let mut st = Stats::new();
        let mut cases: Vec<SessionCase> = vec![];
        for p in [M::Report(3, 2), M::Report(3, 6), M::Ack(3, 1), M::Report(0x0300, 0)] {
            let w = wire_of(&p);
            let mut lines: Vec<Vec<u8>> = vec![];
            for suffix in [&b"FF"[..], b"00", b" ", b"\r", b":", b"0"] {
                let mut l = w.clone();
                l.extend_from_slice(suffix);
                lines.push(l);
            }
            // a valid longer frame that shares P's text up to P's checksum, and the same with its length digit damaged to P's
            if let RefDecode::Ok { addr, ty, data } = ref_decode(&w) {
                let ck = u8::from_str_radix(std::str::from_utf8(&w[w.len() - 2..]).unwrap(), 16).unwrap();
                let mut d2 = data.clone();
                d2.push(ck);
                let longer = wire_of(&M::Unknown { addr, ty, data: d2 });
                let mut damaged = longer.clone();
                damaged[1..3].copy_from_slice(&w[1..3]);
                lines.push(longer);
                lines.push(damaged);
            }
            lines.push(w[..w.len() - 1].to_vec());
            let mut l = w.clone();
            let last = l.len() - 1;
            l[last] = if l[last] == b'0' { b'1' } else { b'0' };
            lines.push(l);
            lines.push(w.to_ascii_lowercase());
            for l in lines {
                for first in [M::Query(3), M::Hello(3)] {
                    cases.push(SessionCase {
                        msgs: vec![first.clone(), M::Query(3), M::Query(3), M::Query(3)],
                        tape: vec![Line::Msg(p.clone()), Line::Raw(l.clone()), Line::Msg(p.clone()), Line::Raw(l.clone())],
                        crlf: true,
                        timeout_at_end: false,
                        read_error_at: None,
                    });
                }
            }
        }
        let n_cases = cases.len();
        for c in &cases {
            if let Err(m) = check_session(c, &mut st) {
                ctx.fail("session-reply-lookalikes", serde_json::to_value(c).unwrap(), m);
                break;
            }
            st.nontrivial(crate::engine::h64(c));
        }
        ctx.merge("session-reply-lookalikes", st);
        ctx.part_done("session-reply-lookalikes", true, json!({"sessions": n_cases, "what": "a reply, then a line that begins like that reply's text (suffixes, a valid longer frame sharing the prefix, the same with its length digit damaged) or alters it slightly, judged by the reference decoder alone"}));
    }
    crate::engine::run_generated_opts(ctx, "session-generated", ctx.tier.pick(40_000, 600_000), 64, 2_000, session_strategy, |c, st| check_session(c, st));

    crate::engine::with_logging(|| {
        crate::engine::run_generated_opts(ctx, "session+logging", ctx.tier.pick(8_000, 100_000), 64, 2_000, session_strategy, |c, st| check_session(c, st));
    });
    crate::engine::run_generated_opts(ctx, "generated", ctx.tier.pick(40_000, 600_000), 64, 2_000, exchange_strategy, |c, st| check_exchange(c, st));
}

pub fn replay(part: &str, case: &Value) -> Result<(), String> {
    if part.starts_with("session") {
        let c: SessionCase = serde_json::from_value(case.clone()).map_err(|e| format!("bad case: {e}"))?;
        return check_session(&c, &mut Stats::new());
    }
    let c: ExchangeCase = serde_json::from_value(case.clone()).map_err(|e| format!("bad case: {e}"))?;
    check_exchange(&c, &mut Stats::new())
}

//! C18 — serial bus pacing: 30 ms after a data chunk, 100 ms after an in-progress report.

use std::time::{Duration, Instant};

use flipdot_core::SignBus;
use flipdot_serial::SerialSignBus;
use serde::{Deserialize, Serialize};
use serde_json::{json, Value};

use crate::engine::{catch, Ctx, Stats};
use crate::io::port::{PortState, TestPort};
use crate::props::c16::{reply_expected, wire_of};
use crate::repr::M;

pub const RULE: &str = "every (message kind, reply kind) pair is enumerated on every run: 19 message kinds (data chunks of 3 lengths, chunk count, hello, query, goodbye, pixels complete, the 6 requests, report, ack, unknown frame) and, for the kinds that get a reply, every reply (13 state reports, 6 acknowledgements, an unknown frame, a data chunk). Each pair is run as 'message, then a query' on an instrumented port that timestamps the start/end of every write()/read() call with a monotonic clock. Lower bounds asserted on every trial: a data chunk's last write -> the next message's first write >= 30 ms; the read that delivered a page-load/show-in-progress report -> return >= 100 ms; the paced exchanges are repeated on a slow port whose write()/read() calls block 1..40 ms, because the delays count from the end of the write / read. For every other message / reply the minimum over repeated trials (5, adaptively up to 200) of write->next-I/O and read->return must be below 30 ms. Generated trains of 3..8 messages on ONE bus (several chunks and in-progress reports in a row) assert the two lower bounds for every paced exchange of the train. Non-trivial = each distinct (message kind, reply kind) pair, and trains with >= 2 paced exchanges";
pub const ASSUMPTIONS: &[&str] = &[
    "thread::sleep never returns early and Instant is monotonic, so the lower bounds cannot be disturbed by load",
    "an unpaced exchange is only declared delayed when all of up to 200 trials exceed 30 ms, so scheduler noise cannot raise an alarm; a spurious delay shorter than 30 ms is not detected (the statement only speaks of 'either of these amounts')",
];

#[derive(Serialize, Deserialize, Debug, Clone, PartialEq, Eq, Hash)]
pub struct PaceCase {
    pub msg: M,
    pub reply: Option<M>,
    /// a slow port: each write() call blocks this many milliseconds (0 = instant)
    #[serde(default)]
    pub write_block_ms: u64,
    /// each read() call blocks this many milliseconds
    #[serde(default)]
    pub read_block_ms: u64,
    /// a fixed-rate adapter: the port accepts the 19200-baud configuration but keeps reporting this rate (0 = a
    /// normal port); the pauses are a property of the sign, not of the line speed
    #[serde(default)]
    pub pinned_baud: u32,
    /// the first reply line on the tape is damaged (bad checksum) and followed by the real reply: a bus that quietly
    /// asks again must still pace the in-progress report it finally returns
    #[serde(default)]
    pub garbled_first: bool,
    /// the bus is used from a destructor while the calling thread unwinds from an unrelated panic (an application
    /// object that sends a last chunk / asks a last time in its Drop): the pauses are the sign's, they hold there too
    #[serde(default)]
    pub while_unwinding: bool,
    /// an exchange that FAILED (a state query whose reply never comes) precedes the measured one on the same bus
    #[serde(default)]
    pub after_failed_exchange: bool,
}

struct Trial {
    /// last write call of the message -> next I/O call start (read of the reply, or first write of the follow-up message)
    after_write: Duration,
    /// end of the read call that delivered the line feed -> return of process_message (None if no reply read)
    after_read: Option<Duration>,
    /// last write call of the message -> first write call of the follow-up message
    to_next_write: Duration,
    /// call of process_message -> its first write call (nothing is due before a message goes out)
    before_write: Duration,
}

fn one_trial(c: &PaceCase) -> Result<Trial, String> {
    if c.while_unwinding {
        let c2 = PaceCase { while_unwinding: false, ..c.clone() };
        return match crate::engine::while_unwinding(move || one_trial_inner(&c2)) {
            Ok(r) => r,
            Err(p) => Err(format!("the bus panicked when used while the thread was unwinding: {p}")),
        };
    }
    one_trial_inner(c)
}

fn one_trial_inner(c: &PaceCase) -> Result<Trial, String> {
    let mut tape = vec![];
    if c.after_failed_exchange {
        // a damaged line: the first exchange (a state query) fails on it
        tape.extend_from_slice(b":01000304FF\r\n");
    }
    if reply_expected(&c.msg) {
        if let Some(r) = &c.reply {
            if c.garbled_first {
                let mut bad = wire_of(r);
                let n = bad.len();
                bad[n - 1] = if bad[n - 1] == b'0' { b'1' } else { b'0' };
                tape.extend_from_slice(&bad);
                tape.extend_from_slice(b"\r\n");
            }
            tape.extend_from_slice(&wire_of(r));
            tape.extend_from_slice(b"\r\n");
        }
    }
    // the follow-up query's reply
    tape.extend_from_slice(&wire_of(&M::Report(1, 0)));
    tape.extend_from_slice(b"\r\n");
    let mut state = PortState::new(tape);
    if c.write_block_ms > 0 {
        state.write_block = Some(Duration::from_millis(c.write_block_ms));
    }
    if c.read_block_ms > 0 {
        state.read_block = Some(Duration::from_millis(c.read_block_ms));
    }
    if c.pinned_baud != 0 {
        state.pinned_baud = Some(serial_core::BaudRate::from_speed(c.pinned_baud as usize));
    }
    let port = TestPort::with_state(state);
    let h = port.handle();
    let mut bus = SerialSignBus::try_new(port).map_err(|e| format!("try_new failed: {e}"))?;
    // the calling thread may carry a pending wake-up token from earlier (thread::park/unpark users do);
    // pacing must not depend on it
    std::thread::current().unpark();
    let (skip_w, skip_r) = if c.after_failed_exchange {
        match catch(|| bus.process_message(M::Query(1).to_message()).map(|_| ()).map_err(|e| e.to_string())).map_err(|p| format!("panic: {p}"))? {
            Err(_) => {}
            Ok(()) => return Err("harness: the exchange that was meant to fail succeeded".into()),
        }
        let s = h.borrow();
        (s.write_calls.len(), s.read_calls.len())
    } else {
        (0, 0)
    };
    let called = Instant::now();
    let r1 = catch(|| bus.process_message(c.msg.to_message()).map_err(|e| e.to_string()).map(|r| r.map(|m| M::from_message(&m)))).map_err(|p| format!("panic: {p}"))?;
    let returned = Instant::now();
    if c.garbled_first {
        // the damaged line is an error for the caller (C16's subject); only if the bus hands back an in-progress report
        // after all does the 100 ms clause apply to it
        let s = h.borrow();
        return match r1 {
            Ok(Some(M::Report(_, 8))) | Ok(Some(M::Report(_, 10))) => {
                let last_read_end = s.read_calls.last().map(|r| r.at).unwrap_or(returned);
                Ok(Trial { after_write: Duration::ZERO, after_read: Some(returned.saturating_duration_since(last_read_end)), to_next_write: Duration::from_secs(3600), before_write: Duration::ZERO })
            }
            _ => Ok(Trial { after_write: Duration::ZERO, after_read: Some(Duration::from_secs(3600)), to_next_write: Duration::from_secs(3600), before_write: Duration::ZERO }),
        };
    }
    r1.map_err(|e| format!("process_message({}) failed on a cooperative port: {e}", c.msg.short()))?;
    let (n_w1, n_r1) = {
        let s = h.borrow();
        (s.write_calls.len(), s.read_calls.len())
    };
    let r2 = catch(|| bus.process_message(M::Query(1).to_message()).map(|_| ()).map_err(|e| e.to_string())).map_err(|p| format!("panic: {p}"))?;
    r2.map_err(|e| format!("follow-up query failed: {e}"))?;
    let s = h.borrow();
    if n_w1 <= skip_w || s.write_calls.len() <= n_w1 {
        return Err("the port saw no write for one of the two messages".into());
    }
    let before_write = s.write_calls[skip_w].started.saturating_duration_since(called);
    let last_write_end = s.write_calls[n_w1 - 1].at;
    let next_write_start = s.write_calls[n_w1].started;
    let (after_write, after_read) = if n_r1 > skip_r {
        let first_read_start = s.read_calls[skip_r].started;
        let last_read_end = s.read_calls[n_r1 - 1].at;
        (first_read_start.saturating_duration_since(last_write_end), Some(returned.saturating_duration_since(last_read_end)))
    } else {
        (next_write_start.saturating_duration_since(last_write_end), None)
    };
    Ok(Trial { after_write, after_read, to_next_write: next_write_start.saturating_duration_since(last_write_end), before_write })
}

const SEND_PACE: Duration = Duration::from_millis(30);
const RECV_PACE: Duration = Duration::from_millis(100);

pub fn check_pace(c: &PaceCase, st: &mut Stats, max_trials: usize) -> Result<(), String> {
    let is_chunk = matches!(c.msg, M::Data { .. });
    let in_progress = reply_expected(&c.msg) && matches!(c.reply, Some(M::Report(_, 8)) | Some(M::Report(_, 10)));
    let mut min_after_write = Duration::from_secs(3600);
    let mut min_after_read = Duration::from_secs(3600);
    let mut min_before_write = Duration::from_secs(3600);
    let mut trials = 0;
    loop {
        let t = one_trial(c)?;
        trials += 1;
        st.eval();
        // lower bounds hold on every single trial
        if is_chunk && t.to_next_write < SEND_PACE {
            return Err(format!(
                "the message after a data chunk ({}) was written {:?} after the chunk, less than 30 ms",
                c.msg.short(),
                t.to_next_write
            ));
        }
        if in_progress {
            let d = t.after_read.unwrap_or_default();
            if d < RECV_PACE {
                return Err(format!(
                    "after receiving {} the bus returned after {:?}, less than 100 ms",
                    c.reply.as_ref().map(|r| r.short()).unwrap_or_default(),
                    d
                ));
            }
        }
        min_after_write = min_after_write.min(t.after_write);
        min_before_write = min_before_write.min(t.before_write);
        if let Some(d) = t.after_read {
            min_after_read = min_after_read.min(d);
        }
        let write_ok = (is_chunk || min_after_write < SEND_PACE) && min_before_write < SEND_PACE;
        let read_ok = in_progress || t.after_read.is_none() || min_after_read < SEND_PACE;
        if trials >= 5 && write_ok && read_ok {
            break;
        }
        if write_ok && read_ok && (is_chunk || in_progress) && trials >= 3 {
            break;
        }
        if trials >= max_trials {
            if min_before_write >= SEND_PACE {
                return Err(format!(
                    "{} is held back: in {trials} trials the bus never started writing it in under 30 ms after the call (minimum {:?}){}",
                    c.msg.short(),
                    min_before_write,
                    if c.after_failed_exchange { " - the exchange before it on the same bus had failed" } else { "" }
                ));
            }
            if !write_ok {
                return Err(format!(
                    "{} is delayed: in {trials} trials the bus never went on in under 30 ms after writing it (minimum {:?}) although it is not a data chunk",
                    c.msg.short(),
                    min_after_write
                ));
            }
            return Err(format!(
                "the reply {} to {} is delayed: in {trials} trials the bus never returned in under 30 ms after reading it (minimum {:?}) although it is not an in-progress report",
                c.reply.as_ref().map(|r| r.short()).unwrap_or_default(),
                c.msg.short(),
                min_after_read
            ));
        }
    }
    st.class(if is_chunk {
        "paced:data-chunk"
    } else if in_progress {
        "paced:in-progress-report"
    } else {
        "unpaced"
    });
    st.nontrivial_enumerated(1);
    st.sample(json!({"message": c.msg.short(), "reply": c.reply.as_ref().map(|r| r.short()), "trials": trials,
        "min_write_to_next_io_us": min_after_write.as_micros() as u64,
        "min_read_to_return_us": if min_after_read.as_secs() >= 3600 { Value::Null } else { json!(min_after_read.as_micros() as u64) }}));
    Ok(())
}

/// A train of messages on ONE bus: every data chunk and every in-progress report in it must be paced
/// (a bus that paces only the first chunk, or every other one, is caught here).
#[derive(Serialize, Deserialize, Debug, Clone, PartialEq, Eq, Hash)]
pub struct TrainCase {
    /// (message, reply if one is due)
    pub steps: Vec<(M, Option<M>)>,
    pub write_block_ms: u64,
    /// the port accepts every byte but reports an error from flush(); calls may then fail, pacing must still hold
    #[serde(default)]
    pub flush_fails: bool,
}

pub fn check_train(c: &TrainCase, st: &mut Stats) -> Result<(), String> {
    let mut tape = vec![];
    for (m, r) in &c.steps {
        if reply_expected(m) {
            let r = r.clone().unwrap_or(M::Report(1, 0));
            tape.extend_from_slice(&wire_of(&r));
            tape.extend_from_slice(b"\r\n");
        }
    }
    let mut state = PortState::new(tape);
    if c.write_block_ms > 0 {
        state.write_block = Some(Duration::from_millis(c.write_block_ms));
    }
    if c.flush_fails {
        state.fail_flush = Some(std::io::ErrorKind::Other);
    }
    let port = TestPort::with_state(state);
    let h = port.handle();
    let mut bus = SerialSignBus::try_new(port).map_err(|e| format!("try_new failed: {e}"))?;
    std::thread::current().unpark(); // a pending wake-up token must not shorten the pacing
    // per step: (index of first write call, index one past the last write call, one past the last read call, return time)
    let mut marks: Vec<(usize, usize, usize, Instant)> = vec![];
    for (i, (m, _)) in c.steps.iter().enumerate() {
        let w0 = h.borrow().write_calls.len();
        let r = catch(|| bus.process_message(m.to_message()).map(|_| ()).map_err(|e| e.to_string())).map_err(|p| format!("step {i}: panic: {p}"))?;
        let ret = Instant::now();
        if !c.flush_fails {
            r.map_err(|e| format!("step {i}: process_message({}) failed on a cooperative port: {e}", m.short()))?;
        }
        let s = h.borrow();
        marks.push((w0, s.write_calls.len(), s.read_calls.len(), ret));
        st.eval();
    }
    let s = h.borrow();
    let mut paced = 0u64;
    for (i, (m, r)) in c.steps.iter().enumerate() {
        let (w0, w1, r1, ret) = marks[i];
        if w1 == w0 {
            return Err(format!("step {i}: {} was not written", m.short()));
        }
        if matches!(m, M::Data { .. }) && i + 1 < c.steps.len() {
            let gap = s.write_calls[marks[i + 1].0].started.saturating_duration_since(s.write_calls[w1 - 1].at);
            paced += 1;
            if gap < SEND_PACE {
                return Err(format!(
                    "step {i}: the message after data chunk {} (chunk number {} of the train) was written after {gap:?}, less than 30 ms",
                    m.short(),
                    c.steps[..=i].iter().filter(|(x, _)| matches!(x, M::Data { .. })).count()
                ));
            }
        }
        if reply_expected(m) && matches!(r, Some(M::Report(_, 8)) | Some(M::Report(_, 10))) {
            let prev_reads = if i == 0 { 0 } else { marks[i - 1].2 };
            if r1 > prev_reads {
                let d = ret.saturating_duration_since(s.read_calls[r1 - 1].at);
                paced += 1;
                if d < RECV_PACE {
                    return Err(format!("step {i}: after the in-progress report to {} the bus returned after {d:?}, less than 100 ms", m.short()));
                }
            }
        }
    }
    if paced >= 2 {
        st.nontrivial(crate::engine::h64(c));
    }
    st.class_n("train:paced-exchanges", paced);
    Ok(())
}

fn train_strategy() -> impl proptest::strategy::Strategy<Value = TrainCase> {
    use proptest::prelude::*;
    let step = prop_oneof![
        6 => (proptest::sample::select(vec![0u16, 16, 32]), proptest::sample::select(vec![0usize, 1, 16])).prop_map(|(off, n)| (M::Data { off, data: vec![0x3C; n] }, None)),
        2 => Just((M::Count(2), None)),
        3 => (0u8..13).prop_map(|s| (M::Query(3), Some(M::Report(3, s)))),
        2 => proptest::sample::select(vec![8u8, 10]).prop_map(|s| (M::Query(3), Some(M::Report(3, s)))),
        1 => (0u8..6).prop_map(|o| (M::Req(3, o), Some(M::Ack(3, o)))),
        1 => Just((M::PixelsComplete(3), None)),
    ];
    (proptest::collection::vec(step, 3..=8), proptest::sample::select(vec![0u64, 0, 0, 3, 11]), prop_oneof![5 => Just(false), 1 => Just(true)])
        .prop_map(|(steps, write_block_ms, flush_fails)| TrainCase { steps, write_block_ms, flush_fails })
}

pub fn all_pairs(addr: u16) -> Vec<PaceCase> {
    let mut msgs: Vec<M> = vec![
        M::Data { off: 0, data: vec![0xAA; 16] },
        M::Data { off: 16, data: vec![] },
        M::Data { off: 32, data: vec![1; 255] },
        M::Count(3),
        M::Hello(addr),
        M::Query(addr),
        M::Goodbye(addr),
        M::PixelsComplete(addr),
        M::Report(addr, 8),
        M::Ack(addr, 2),
        M::Unknown { addr, ty: 0x33, data: vec![0x11] },
        // looks like an in-progress report but is not one: type 4 with two data bytes
        M::Unknown { addr, ty: 4, data: vec![0x13, 0x00] },
    ];
    for o in 0..6 {
        msgs.push(M::Req(addr, o));
    }
    let mut replies: Vec<M> = (0..13).map(|s| M::Report(addr, s)).collect();
    replies.extend((0..6).map(|o| M::Ack(addr, o)));
    replies.push(M::Unknown { addr, ty: 0x44, data: vec![] });
    // look like in-progress reports but are not: type 4 with more than one data byte, other types with those codes
    replies.push(M::Unknown { addr, ty: 4, data: vec![0x13, 0x00] });
    replies.push(M::Unknown { addr, ty: 4, data: vec![0x11, 0xFF, 0x00] });
    replies.push(M::Unknown { addr, ty: 7, data: vec![0x13] });
    replies.push(M::Data { off: 0, data: vec![0x13] });
    replies.push(M::Report(addr ^ 0x0101, 10)); // an in-progress report from another address is still an in-progress report
    let mut out = vec![];
    for m in msgs {
        if reply_expected(&m) {
            for r in &replies {
                out.push(PaceCase { msg: m.clone(), reply: Some(r.clone()), write_block_ms: 0, read_block_ms: 0, pinned_baud: 0, garbled_first: false, while_unwinding: false, after_failed_exchange: false });
            }
        } else {
            out.push(PaceCase { msg: m, reply: None, write_block_ms: 0, read_block_ms: 0, pinned_baud: 0, garbled_first: false, while_unwinding: false, after_failed_exchange: false });
        }
    }
    // the paced exchanges again on a slow line: the 30 ms / 100 ms count from the END of the write / read,
    // however long the port needed for it
    for block in [4u64, 12, 25, 40] {
        out.push(PaceCase { msg: M::Data { off: 0, data: vec![0xAA; 16] }, reply: None, write_block_ms: block, read_block_ms: 0, pinned_baud: 0, garbled_first: false, while_unwinding: false, after_failed_exchange: false });
        out.push(PaceCase { msg: M::Data { off: 16, data: vec![] }, reply: None, write_block_ms: block, read_block_ms: 0, pinned_baud: 0, garbled_first: false, while_unwinding: false, after_failed_exchange: false });
    }
    for block in [1u64, 3, 8] {
        out.push(PaceCase { msg: M::Query(addr), reply: Some(M::Report(addr, 8)), write_block_ms: 0, read_block_ms: block, pinned_baud: 0, garbled_first: false, while_unwinding: false, after_failed_exchange: false });
        out.push(PaceCase { msg: M::Req(addr, 2), reply: Some(M::Report(addr, 10)), write_block_ms: block, read_block_ms: block, pinned_baud: 0, garbled_first: false, while_unwinding: false, after_failed_exchange: false });
    }
    // fixed-rate adapters: the port keeps reporting another speed after it was configured; the pauses stay 30 / 100 ms
    for baud in [300u32, 9_600, 115_200, 4_000_000] {
        out.push(PaceCase { msg: M::Data { off: 0, data: vec![0xAA; 16] }, reply: None, write_block_ms: 0, read_block_ms: 0, pinned_baud: baud, garbled_first: false, while_unwinding: false, after_failed_exchange: false });
        out.push(PaceCase { msg: M::Query(addr), reply: Some(M::Report(addr, 10)), write_block_ms: 0, read_block_ms: 0, pinned_baud: baud, garbled_first: false, while_unwinding: false, after_failed_exchange: false });
    }
    // used while the thread unwinds from an unrelated panic: both pauses still apply
    out.push(PaceCase { msg: M::Data { off: 0, data: vec![0xAA; 16] }, reply: None, write_block_ms: 0, read_block_ms: 0, pinned_baud: 0, garbled_first: false, while_unwinding: true, after_failed_exchange: false });
    out.push(PaceCase { msg: M::Query(addr), reply: Some(M::Report(addr, 10)), write_block_ms: 0, read_block_ms: 0, pinned_baud: 0, garbled_first: false, while_unwinding: true, after_failed_exchange: false });
    out.push(PaceCase { msg: M::Req(addr, 3), reply: Some(M::Report(addr, 8)), write_block_ms: 0, read_block_ms: 0, pinned_baud: 0, garbled_first: false, while_unwinding: true, after_failed_exchange: false });
    // after an exchange that failed on the same bus: nothing is held back, the pauses stay what they are
    for (m, r) in [(M::Count(2), None), (M::PixelsComplete(addr), None), (M::Goodbye(addr), None), (M::Query(addr), Some(M::Report(addr, 7))), (M::Data { off: 0, data: vec![1; 16] }, None), (M::Query(addr), Some(M::Report(addr, 10)))] {
        out.push(PaceCase { msg: m, reply: r, write_block_ms: 0, read_block_ms: 0, pinned_baud: 0, garbled_first: false, while_unwinding: false, after_failed_exchange: true });
    }
    // a damaged reply line followed by an in-progress report
    for state in [8u8, 10] {
        out.push(PaceCase { msg: M::Query(addr), reply: Some(M::Report(addr, state)), write_block_ms: 0, read_block_ms: 0, pinned_baud: 0, garbled_first: true, while_unwinding: false, after_failed_exchange: false });
        out.push(PaceCase { msg: M::Hello(addr), reply: Some(M::Report(addr, state)), write_block_ms: 0, read_block_ms: 0, pinned_baud: 0, garbled_first: true, while_unwinding: false, after_failed_exchange: false });
    }
    out
}

pub fn run(ctx: &Ctx) {
    let addrs: &[u16] = ctx.tier.pick(&[3u16, 0xFFFF][..], &[3u16, 0, 0xFFFF, 0x0100, 0x7F, 0x8000][..]);
    let max_trials = ctx.tier.pick(200, 400);
    let mut cases = vec![];
    for &a in addrs {
        cases.extend(all_pairs(a));
    }
    let n = cases.len();
    let next = std::sync::atomic::AtomicUsize::new(0);
    // sleeping costs no CPU, but the *unpaced* measurements want an idle core: moderate parallelism
    std::thread::scope(|sc| {
        for _ in 0..24 {
            let cases = &cases;
            let next = &next;
            sc.spawn(move || {
                let mut st = Stats::new();
                loop {
                    let i = next.fetch_add(1, std::sync::atomic::Ordering::Relaxed);
                    if i >= cases.len() || ctx.stopped() {
                        break;
                    }
                    if let Err(m) = check_pace(&cases[i], &mut st, max_trials) {
                        ctx.fail("pairs", serde_json::to_value(&cases[i]).unwrap(), m);
                        break;
                    }
                }
                ctx.merge("pairs", st);
            });
        }
    });
    ctx.part_done("pairs", true, json!({"message_reply_pairs": n, "addresses": addrs, "max_trials_before_declaring_a_delay": max_trials}));

    // a fixed train: five chunks in a row, then a count and three polls that see in-progress twice
    let fixed = TrainCase {
        steps: vec![
            (M::Data { off: 0, data: vec![1; 16] }, None),
            (M::Data { off: 16, data: vec![2; 16] }, None),
            (M::Data { off: 32, data: vec![3; 16] }, None),
            (M::Data { off: 48, data: vec![4; 16] }, None),
            (M::Data { off: 64, data: vec![] }, None),
            (M::Count(5), None),
            (M::Query(3), Some(M::Report(3, 10))),
            (M::Query(3), Some(M::Report(3, 10))),
            (M::Query(3), Some(M::Report(3, 9))),
        ],
        write_block_ms: 0,
        flush_fails: false,
    };
    let mut st = Stats::new();
    for flush_fails in [false, true] {
        let t = TrainCase { flush_fails, ..fixed.clone() };
        if let Err(m) = check_train(&t, &mut st) {
            ctx.fail("train", serde_json::to_value(&t).unwrap(), m);
        }
    }
    ctx.merge("train", st);
    crate::engine::run_generated_opts(ctx, "train", ctx.tier.pick(400, 6_000), 64, 60, train_strategy, |c, st| check_train(c, st));
}

pub fn replay(part: &str, case: &Value) -> Result<(), String> {
    if part == "train" {
        let c: TrainCase = serde_json::from_value(case.clone()).map_err(|e| format!("bad case: {e}"))?;
        return check_train(&c, &mut Stats::new());
    }
    let c: PaceCase = serde_json::from_value(case.clone()).map_err(|e| format!("bad case: {e}"))?;
    check_pace(&c, &mut Stats::new(), 200)
}

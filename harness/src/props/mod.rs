//! One module per property. Each exposes
//!   RULE / ASSUMPTIONS   text for the evidence file
//!   run(&Ctx)            all parts of the check for the chosen tier
//!   replay(part, case)   exactly one case through the same oracle, no generator

use std::path::Path;

use serde_json::Value;

use crate::engine::{verif_dir, Ctx};

pub mod c01;
pub mod c02;
pub mod c03;
pub mod c04;
pub mod c05;
pub mod c06;
pub mod c07;
pub mod c08;
pub mod c09;
pub mod c10;
pub mod c12;
pub mod c14;
pub mod c15;
pub mod c16;
pub mod c17;
pub mod c18;
pub mod c19;
pub mod c20;

pub const ALL: &[&str] = &[
    "C01", "C02", "C03", "C04", "C05", "C06", "C07", "C08", "C09", "C10", "C11", "C12", "C13", "C14", "C15", "C16", "C17",
    "C18", "C19", "C20",
];

pub fn rule(id: &str) -> &'static str {
    match id {
        "C01" => c01::RULE,
        "C02" => c02::RULE,
        "C03" => c03::RULE,
        "C04" => c04::RULE,
        "C05" => c05::RULE,
        "C06" => c06::RULE,
        "C07" => c07::RULE,
        "C08" => c08::RULE,
        "C09" => c09::RULE,
        "C10" => c10::RULE_C10,
        "C11" => c10::RULE_C11,
        "C12" => c12::RULE_C12,
        "C13" => c12::RULE_C13,
        "C14" => c14::RULE,
        "C15" => c15::RULE,
        "C16" => c16::RULE,
        "C17" => c17::RULE,
        "C18" => c18::RULE,
        "C19" => c19::RULE,
        "C20" => c20::RULE,
        _ => "",
    }
}

pub fn assumptions(id: &str) -> Vec<&'static str> {
    let mut v = vec![
        "the harness's reference models (written from the property statement and the documented formats) are themselves correct",
        "rustc/std and the proptest generators behave as documented; a run is a pure function of (tree, VERIF_SEED, tier)",
    ];
    let extra: &[&str] = match id {
        "C01" => c01::ASSUMPTIONS,
        "C02" => c02::ASSUMPTIONS,
        "C03" => c03::ASSUMPTIONS,
        "C04" => c04::ASSUMPTIONS,
        "C05" => c05::ASSUMPTIONS,
        "C06" => c06::ASSUMPTIONS,
        "C07" => c07::ASSUMPTIONS,
        "C08" => c08::ASSUMPTIONS,
        "C09" => c09::ASSUMPTIONS,
        "C10" => c10::ASSUMPTIONS_C10,
        "C11" => c10::ASSUMPTIONS_C11,
        "C12" => c12::ASSUMPTIONS_C12,
        "C13" => c12::ASSUMPTIONS_C13,
        "C14" => c14::ASSUMPTIONS,
        "C15" => c15::ASSUMPTIONS,
        "C16" => c16::ASSUMPTIONS,
        "C17" => c17::ASSUMPTIONS,
        "C18" => c18::ASSUMPTIONS,
        "C19" => c19::ASSUMPTIONS,
        "C20" => c20::ASSUMPTIONS,
        _ => &[],
    };
    v.extend_from_slice(extra);
    v
}

pub fn run(ctx: &Ctx) {
    match ctx.id.as_str() {
        "C01" => c01::run(ctx),
        "C02" => c02::run(ctx),
        "C03" => c03::run(ctx),
        "C04" => c04::run(ctx),
        "C05" => c05::run(ctx),
        "C06" => c06::run(ctx),
        "C07" => c07::run(ctx),
        "C08" => c08::run(ctx),
        "C09" => c09::run(ctx),
        "C10" => c10::run(ctx, false),
        "C11" => c10::run(ctx, true),
        "C12" => c12::run(ctx, false),
        "C13" => c12::run(ctx, true),
        "C14" => c14::run(ctx),
        "C15" => c15::run(ctx),
        "C16" => c16::run(ctx),
        "C17" => c17::run(ctx),
        "C18" => c18::run(ctx),
        "C19" => c19::run(ctx),
        "C20" => c20::run(ctx),
        _ => unreachable!(),
    }
}

/// Sixteen threads released at the same instant each make their FIRST use of the code under the property in this
/// process (lazily built tables, lazily compiled patterns, once-cells): every one of them must get the right answer.
/// Must run before anything else touches the library - main calls it first, `--replay` of such a failure runs it again
/// in its fresh process.
pub fn first_use_race(id: &str) -> Result<(), String> {
    use flipdot_core::{Address, Data, Frame, Message, MsgType, Page, PageId, SignType};
    type After = Box<dyn FnOnce() -> Result<(), String> + Send>;
    // phase 1 (before the start signal): build the inputs; phase 2 (the returned closure, run at the signal): the first use
    let prepare: Box<dyn Fn(usize) -> After + Sync> = match id {
        "C01" | "C02" | "C03" | "C15" | "C16" | "C17" => Box::new(|k| {
            let f = Frame::new(Address(0x7F), MsgType(2), Data::try_new(vec![0xFF]).unwrap());
            Box::new(move || {
                if k % 2 == 0 {
                    let text = f.to_bytes();
                    if text != b":01007F02FF7F" {
                        return Err(format!("thread {k}: first encoding in this process gives {}", crate::engine::show_bytes(&text)));
                    }
                }
                match Frame::from_bytes(b":01007F02FF7F\r\n") {
                    Ok(g) if g == f => {}
                    other => return Err(format!("thread {k}: first decoding in this process gives {other:?}")),
                }
                match Frame::from_bytes(b":01007F02FF7E") {
                    Err(_) => Ok(()),
                    Ok(g) => Err(format!("thread {k}: first decoding of a bad-checksum text in this process gives {g:?}")),
                }
            })
        }),
        "C04" | "C05" | "C10" | "C11" => Box::new(|k| {
            // a different row of the code table per thread, the later rows first
            let all = crate::repr::all_addressed(3);
            let want = all[all.len() - 1 - (k * 2) % all.len()].clone();
            let (addr, ty, data) = want.ref_frame();
            let frame = Frame::new(Address(addr), MsgType(ty), Data::try_new(data.clone()).unwrap());
            let twin = Frame::new(Address(addr), MsgType(ty), Data::try_new(data).unwrap());
            Box::new(move || {
                let got = Message::from(frame);
                if crate::repr::M::from_message(&got) != want {
                    return Err(format!("thread {k}: the first Frame -> Message conversion in this process gives {got:?} instead of {}", want.short()));
                }
                let back = Frame::from(got);
                if back != twin {
                    return Err(format!("thread {k}: the first Message -> Frame conversion in this process gives {back:?}"));
                }
                Ok(())
            })
        }),
        "C06" | "C07" | "C08" | "C09" => Box::new(|k| {
            Box::new(move || {
                let mut p = Page::new(PageId(k as u8), 9, 9);
                p.set_pixel(8, 8, true);
                if !p.get_pixel(8, 8) || p.get_pixel(0, 0) || p.as_bytes().len() != 32 {
                    return Err(format!("thread {k}: the first page operations in this process misbehave ({} bytes)", p.as_bytes().len()));
                }
                match Page::from_bytes(9, 9, p.as_bytes().to_vec()) {
                    Ok(q) if q == p => Ok(()),
                    other => Err(format!("thread {k}: the first from_bytes in this process gives {other:?}")),
                }
            })
        }),
        "C12" | "C13" | "C14" | "C19" => Box::new(|k| {
            let t = crate::oracle::vsign::TYPES[(10 - k % 11) % 11].0;
            Box::new(move || match SignType::from_bytes(t.to_bytes()) {
                Ok(back) if back == t => Ok(()),
                other => Err(format!("thread {k}: the first SignType::from_bytes in this process gives {other:?} for the block of {t:?}")),
            })
        }),
        _ => return Ok(()),
    };
    let n = 16usize;
    let barrier = std::sync::Barrier::new(n);
    let go = std::sync::atomic::AtomicBool::new(false);
    let results: Vec<Result<(), String>> = std::thread::scope(|sc| {
        let handles: Vec<_> = (0..n)
            .map(|k| {
                let (barrier, go, prepare) = (&barrier, &go, &prepare);
                sc.spawn(move || {
                    let after = prepare(k);
                    barrier.wait();
                    if k == n - 1 {
                        go.store(true, std::sync::atomic::Ordering::Release);
                    }
                    while !go.load(std::sync::atomic::Ordering::Acquire) {
                        std::hint::spin_loop();
                    }
                    match crate::engine::catch(after) {
                        Ok(r) => r,
                        Err(p) => Err(format!("thread {k}: panic on first use: {p}")),
                    }
                })
            })
            .collect();
        handles.into_iter().map(|h| h.join().unwrap_or_else(|_| Err("worker died".into()))).collect()
    });
    let bad: Vec<&String> = results.iter().filter_map(|r| r.as_ref().err()).collect();
    if bad.is_empty() {
        Ok(())
    } else {
        Err(format!("{} of {n} threads that made their first use of the library at the same instant got a wrong answer; e.g. {}", bad.len(), bad[0]))
    }
}

/// The race in this process (its first use of the library), then - "first use" happens once per process - in up to
/// seven more processes that run only the race. (first failure message, number of shots made)
pub fn first_use_shots(id: &str) -> (Option<String>, u64) {
    let mut failure = first_use_race(id).err();
    let mut shots = 1u64;
    if let Ok(exe) = std::env::current_exe() {
        for _ in 0..7 {
            if failure.is_some() {
                break;
            }
            if let Ok(out) = std::process::Command::new(&exe).arg(id).arg("--first-use-race").output() {
                shots += 1;
                if out.status.code() == Some(1) {
                    failure = Some(String::from_utf8_lossy(&out.stdout).lines().next().unwrap_or("a child process reported a wrong first use").to_string());
                }
            }
        }
    }
    (failure, shots)
}

/// called by main before anything else
pub fn first_use(ctx: &Ctx) {
    if !ctx.part_enabled("first-use-race") {
        return;
    }
    let mut st = crate::engine::Stats::new();
    st.evals(16);
    st.class("first-use-race");
    let (failure, shots) = first_use_shots(&ctx.id);
    st.evals(16 * (shots - 1));
    if let Some(m) = failure {
        ctx.fail("first-use-race", serde_json::json!({"first_use_race": ctx.id}), m);
    }
    ctx.merge("first-use-race", st);
}

/// Ok(()) = the case satisfies the property, Err(message) = violation.
pub fn replay(id: &str, part: &str, case: &Value) -> Result<(), String> {
    if part == "first-use-race" {
        return match first_use_shots(id).0 {
            None => Ok(()),
            Some(m) => Err(m),
        };
    }
    let r = crate::engine::catch(|| match id {
        "C01" => c01::replay(part, case),
        "C02" => c02::replay(part, case),
        "C03" => c03::replay(part, case),
        "C04" => c04::replay(part, case),
        "C05" => c05::replay(part, case),
        "C06" => c06::replay(part, case),
        "C07" => c07::replay(part, case),
        "C08" => c08::replay(part, case),
        "C09" => c09::replay(part, case),
        "C10" => c10::replay(part, case, false),
        "C11" => c10::replay(part, case, true),
        "C12" => c12::replay(part, case, false),
        "C13" => c12::replay(part, case, true),
        "C14" => c14::replay(part, case),
        "C15" => c15::replay(part, case),
        "C16" => c16::replay(part, case),
        "C17" => c17::replay(part, case),
        "C18" => c18::replay(part, case),
        "C19" => c19::replay(part, case),
        "C20" => c20::replay(part, case),
        _ => Err(format!("unknown property {id}")),
    });
    match r {
        Ok(r) => r,
        Err(p) => Err(format!("harness-visible panic during replay: {p}")),
    }
}

fn load_replay(path: &Path) -> Result<(String, String, Value), String> {
    let text = std::fs::read_to_string(path).map_err(|e| format!("cannot read {}: {e}", path.display()))?;
    let v: Value = serde_json::from_str(&text).map_err(|e| format!("bad JSON in {}: {e}", path.display()))?;
    let prop = v.get("property").and_then(|p| p.as_str()).unwrap_or("").to_string();
    let part = v.get("part").and_then(|p| p.as_str()).unwrap_or("").to_string();
    let case = v.get("case").cloned().unwrap_or(Value::Null);
    Ok((prop, part, case))
}

/// `--replay FILE`: exit code 0 (holds), 1 (violation, with VIOLATION line), 2 (unusable file)
pub fn replay_file(id: &str, path: &str) -> i32 {
    let (prop, part, case) = match load_replay(Path::new(path)) {
        Ok(x) => x,
        Err(e) => {
            eprintln!("{e}");
            return 2;
        }
    };
    // a C12 history may be replayed under C13 and vice versa (same case format), likewise C10/C11
    let compatible = prop == id
        || matches!((prop.as_str(), id), ("C12", "C13") | ("C13", "C12") | ("C10", "C11") | ("C11", "C10"));
    if !compatible {
        eprintln!("replay file is for {prop}, not {id}");
        return 2;
    }
    match replay(id, &part, &case) {
        Ok(()) => {
            println!("replay of {path}: property {id} holds on this case");
            0
        }
        Err(msg) => {
            println!("  message: {msg}");
            println!("VIOLATION property={id} replay={path}");
            1
        }
    }
}

/// Replay every committed regression case of this property before any generation.
pub fn replay_corpus(ctx: &Ctx) {
    let dir = Path::new(&verif_dir()).join("corpus").join(&ctx.id);
    let mut files: Vec<_> = match std::fs::read_dir(&dir) {
        Ok(rd) => rd.filter_map(|e| e.ok()).map(|e| e.path()).filter(|p| p.extension().map(|x| x == "json").unwrap_or(false)).collect(),
        Err(_) => vec![],
    };
    files.sort();
    let mut stats = crate::engine::Stats::new();
    let mut n = 0u64;
    for f in &files {
        match load_replay(f) {
            Ok((_prop, part, case)) => {
                stats.eval();
                n += 1;
                if let Err(msg) = replay(&ctx.id, &part, &case) {
                    ctx.fail(&part, case, format!("{msg} [regression corpus {}]", f.display()));
                }
            }
            Err(e) => ctx.inconclusive(e),
        }
    }
    stats.class_n("regression-corpus", n);
    ctx.merge("corpus", stats);
    ctx.extra("regression_corpus_cases", serde_json::json!(n));
}

//! One module per property. Each exposes
//!   RULE / ASSUMPTIONS   text for the evidence file
//!   run(&Ctx)            all parts of the check for the chosen tier
//!   replay(part, case)   exactly one case through the same oracle, no generator

use std::path::Path;

use serde_json::Value;

use crate::engine::{verif_dir, Ctx};

pub mod c01;
pub mod c02;
pub mod c03;
pub mod c04;
pub mod c05;
pub mod c06;
pub mod c07;
pub mod c08;
pub mod c09;
pub mod c10;
pub mod c12;
pub mod c14;
pub mod c15;
pub mod c16;
pub mod c17;
pub mod c18;
pub mod c19;
pub mod c20;

pub const ALL: &[&str] = &[
    "C01", "C02", "C03", "C04", "C05", "C06", "C07", "C08", "C09", "C10", "C11", "C12", "C13", "C14", "C15", "C16", "C17",
    "C18", "C19", "C20",
];

pub fn rule(id: &str) -> &'static str {
    match id {
        "C01" => c01::RULE,
        "C02" => c02::RULE,
        "C03" => c03::RULE,
        "C04" => c04::RULE,
        "C05" => c05::RULE,
        "C06" => c06::RULE,
        "C07" => c07::RULE,
        "C08" => c08::RULE,
        "C09" => c09::RULE,
        "C10" => c10::RULE_C10,
        "C11" => c10::RULE_C11,
        "C12" => c12::RULE_C12,
        "C13" => c12::RULE_C13,
        "C14" => c14::RULE,
        "C15" => c15::RULE,
        "C16" => c16::RULE,
        "C17" => c17::RULE,
        "C18" => c18::RULE,
        "C19" => c19::RULE,
        "C20" => c20::RULE,
        _ => "",
    }
}

pub fn assumptions(id: &str) -> Vec<&'static str> {
    let mut v = vec![
        "the harness's reference models (written from the property statement and the documented formats) are themselves correct",
        "rustc/std and the proptest generators behave as documented; a run is a pure function of (tree, VERIF_SEED, tier)",
    ];
    let extra: &[&str] = match id {
        "C01" => c01::ASSUMPTIONS,
        "C02" => c02::ASSUMPTIONS,
        "C03" => c03::ASSUMPTIONS,
        "C04" => c04::ASSUMPTIONS,
        "C05" => c05::ASSUMPTIONS,
        "C06" => c06::ASSUMPTIONS,
        "C07" => c07::ASSUMPTIONS,
        "C08" => c08::ASSUMPTIONS,
        "C09" => c09::ASSUMPTIONS,
        "C10" => c10::ASSUMPTIONS_C10,
        "C11" => c10::ASSUMPTIONS_C11,
        "C12" => c12::ASSUMPTIONS_C12,
        "C13" => c12::ASSUMPTIONS_C13,
        "C14" => c14::ASSUMPTIONS,
        "C15" => c15::ASSUMPTIONS,
        "C16" => c16::ASSUMPTIONS,
        "C17" => c17::ASSUMPTIONS,
        "C18" => c18::ASSUMPTIONS,
        "C19" => c19::ASSUMPTIONS,
        "C20" => c20::ASSUMPTIONS,
        _ => &[],
    };
    v.extend_from_slice(extra);
    v
}

pub fn run(ctx: &Ctx) {
    match ctx.id.as_str() {
        "C01" => c01::run(ctx),
        "C02" => c02::run(ctx),
        "C03" => c03::run(ctx),
        "C04" => c04::run(ctx),
        "C05" => c05::run(ctx),
        "C06" => c06::run(ctx),
        "C07" => c07::run(ctx),
        "C08" => c08::run(ctx),
        "C09" => c09::run(ctx),
        "C10" => c10::run(ctx, false),
        "C11" => c10::run(ctx, true),
        "C12" => c12::run(ctx, false),
        "C13" => c12::run(ctx, true),
        "C14" => c14::run(ctx),
        "C15" => c15::run(ctx),
        "C16" => c16::run(ctx),
        "C17" => c17::run(ctx),
        "C18" => c18::run(ctx),
        "C19" => c19::run(ctx),
        "C20" => c20::run(ctx),
        _ => unreachable!(),
    }
}

/// Ok(()) = the case satisfies the property, Err(message) = violation.
pub fn replay(id: &str, part: &str, case: &Value) -> Result<(), String> {
    let r = crate::engine::catch(|| match id {
        "C01" => c01::replay(part, case),
        "C02" => c02::replay(part, case),
        "C03" => c03::replay(part, case),
        "C04" => c04::replay(part, case),
        "C05" => c05::replay(part, case),
        "C06" => c06::replay(part, case),
        "C07" => c07::replay(part, case),
        "C08" => c08::replay(part, case),
        "C09" => c09::replay(part, case),
        "C10" => c10::replay(part, case, false),
        "C11" => c10::replay(part, case, true),
        "C12" => c12::replay(part, case, false),
        "C13" => c12::replay(part, case, true),
        "C14" => c14::replay(part, case),
        "C15" => c15::replay(part, case),
        "C16" => c16::replay(part, case),
        "C17" => c17::replay(part, case),
        "C18" => c18::replay(part, case),
        "C19" => c19::replay(part, case),
        "C20" => c20::replay(part, case),
        _ => Err(format!("unknown property {id}")),
    });
    match r {
        Ok(r) => r,
        Err(p) => Err(format!("harness-visible panic during replay: {p}")),
    }
}

fn load_replay(path: &Path) -> Result<(String, String, Value), String> {
    let text = std::fs::read_to_string(path).map_err(|e| format!("cannot read {}: {e}", path.display()))?;
    let v: Value = serde_json::from_str(&text).map_err(|e| format!("bad JSON in {}: {e}", path.display()))?;
    let prop = v.get("property").and_then(|p| p.as_str()).unwrap_or("").to_string();
    let part = v.get("part").and_then(|p| p.as_str()).unwrap_or("").to_string();
    let case = v.get("case").cloned().unwrap_or(Value::Null);
    Ok((prop, part, case))
}

/// `--replay FILE`: exit code 0 (holds), 1 (violation, with VIOLATION line), 2 (unusable file)
pub fn replay_file(id: &str, path: &str) -> i32 {
    let (prop, part, case) = match load_replay(Path::new(path)) {
        Ok(x) => x,
        Err(e) => {
            eprintln!("{e}");
            return 2;
        }
    };
    // a C12 history may be replayed under C13 and vice versa (same case format), likewise C10/C11
    let compatible = prop == id
        || matches!((prop.as_str(), id), ("C12", "C13") | ("C13", "C12") | ("C10", "C11") | ("C11", "C10"));
    if !compatible {
        eprintln!("replay file is for {prop}, not {id}");
        return 2;
    }
    match replay(id, &part, &case) {
        Ok(()) => {
            println!("replay of {path}: property {id} holds on this case");
            0
        }
        Err(msg) => {
            println!("  message: {msg}");
            println!("VIOLATION property={id} replay={path}");
            1
        }
    }
}

/// Replay every committed regression case of this property before any generation.
pub fn replay_corpus(ctx: &Ctx) {
    let dir = Path::new(&verif_dir()).join("corpus").join(&ctx.id);
    let mut files: Vec<_> = match std::fs::read_dir(&dir) {
        Ok(rd) => rd.filter_map(|e| e.ok()).map(|e| e.path()).filter(|p| p.extension().map(|x| x == "json").unwrap_or(false)).collect(),
        Err(_) => vec![],
    };
    files.sort();
    let mut stats = crate::engine::Stats::new();
    let mut n = 0u64;
    for f in &files {
        match load_replay(f) {
            Ok((_prop, part, case)) => {
                stats.eval();
                n += 1;
                if let Err(msg) = replay(&ctx.id, &part, &case) {
                    ctx.fail(&part, case, format!("{msg} [regression corpus {}]", f.display()));
                }
            }
            Err(e) => ctx.inconclusive(e),
        }
    }
    stats.class_n("regression-corpus", n);
    ctx.merge("corpus", stats);
    ctx.extra("regression_corpus_cases", serde_json::json!(n));
}

//! C01 — frame codec round trip and wire shape.

use flipdot_core::{Address, Data, Frame, MsgType};
use proptest::prelude::*;
use serde::{Deserialize, Serialize};
use serde_json::{json, Value};

use crate::engine::{catch, h64, par_range, run_generated, show_bytes, Ctx, Stats};
use crate::oracle::hex::{ref_encode, wire_shape_ok};

pub const RULE: &str = "cases are frames (address, type, data 0..=255 bytes) from a boundary-biased proptest generator plus exhaustive sweeps over all 65536 addresses, all 256 types and all 256 lengths, each run owned/borrowed x with/without CRLF against an independent encoder; plus Data::try_new on every length 0..=255 on generated lengths 256..=70000 and on 4 GiB + {0, 1, 255, 300} (lengths that differ from a legal one only above bit 31). Non-trivial = data length > 16, or address high byte != 0, or field byte sum >= 512 (checksum wraps more than once), or a try_new length >= 255; distinct by hash of (address, type, data) / by length";
pub const ASSUMPTIONS: &[&str] = &["the reference encoder in oracle/hex.rs transcribes the documented frame diagram correctly (cross-checked against the golden frames of the documentation)"];

#[derive(Serialize, Deserialize, Debug, Clone, PartialEq, Eq, Hash)]
pub struct FrameCase {
    pub addr: u16,
    pub ty: u8,
    pub data: Vec<u8>,
}

pub fn addr_strategy() -> impl Strategy<Value = u16> {
    prop_oneof![
        3 => proptest::sample::select(vec![0u16, 0x7F, 0x80, 0xFF, 0x100, 0x8000, 0xFF00, 0xFFFF]),
        7 => any::<u16>(),
    ]
}

pub fn byte_strategy() -> impl Strategy<Value = u8> {
    prop_oneof![
        3 => proptest::sample::select(vec![0x00u8, 0x0F, 0x10, 0x7F, 0x80, 0xF0, 0xFF]),
        7 => any::<u8>(),
    ]
}

pub fn len_strategy() -> impl Strategy<Value = usize> {
    prop_oneof![
        3 => proptest::sample::select(vec![0usize, 1, 2, 15, 16, 17, 127, 128, 254, 255]),
        7 => 0usize..=255,
    ]
}

pub fn data_strategy() -> impl Strategy<Value = Vec<u8>> {
    len_strategy().prop_flat_map(|n| {
        prop_oneof![
            6 => proptest::collection::vec(byte_strategy(), n),
            1 => Just(vec![0xFFu8; n]),
            1 => Just(vec![0x00u8; n]),
            // almost uniform: one fill byte with one or two deviations anywhere (decisions taken on a word-wise or
            // sampled look at the data - "blank", "all ones" - are wrong exactly here)
            2 => (proptest::sample::select(vec![0x00u8, 0xFF, 0x20, 0x5A]), proptest::collection::vec((any::<u16>(), 1u8..=255), 1..=2)).prop_map(move |(fill, devs)| {
                let mut v = vec![fill; n];
                for (pos, d) in devs {
                    if n > 0 {
                        let i = crate::engine::pick_idx(pos, n);
                        v[i] ^= d;
                    }
                }
                v
            }),
        ]
    })
}

pub fn frame_strategy() -> impl Strategy<Value = FrameCase> {
    (addr_strategy(), byte_strategy(), data_strategy()).prop_map(|(addr, ty, data)| FrameCase { addr, ty, data })
}

fn is_nontrivial(c: &FrameCase) -> bool {
    let sum: u32 = c.data.iter().map(|&b| b as u32).sum::<u32>() + c.data.len() as u32 + (c.addr >> 8) as u32 + (c.addr & 0xFF) as u32 + c.ty as u32;
    c.data.len() > 16 || (c.addr >> 8) != 0 || sum >= 512
}

/// The oracle for one frame.
pub fn check_frame(c: &FrameCase, st: &mut Stats) -> Result<(), String> {
    let want = ref_encode(c.addr, c.ty, &c.data);
    let mut want_nl = want.clone();
    want_nl.extend_from_slice(b"\r\n");

    for way in 0..3u8 {
        let how = ["owned", "borrowed", "owned with spare capacity"][way as usize];
        let r = catch(|| -> Result<(), String> {
            let data = match way {
                0 => Data::try_new(c.data.clone()),
                1 => Data::try_new(&c.data[..]),
                _ => {
                    // a vector that was grown, not sized exactly (len < capacity)
                    let mut v: Vec<u8> = Vec::with_capacity(c.data.len() + 9);
                    v.extend_from_slice(&c.data);
                    Data::try_new(v)
                }
            }
            .map_err(|e| format!("Data::try_new rejected a {}-byte block ({how}): {e}", c.data.len()))?;
            if data.get().as_ref() != &c.data[..] {
                return Err(format!("Data::try_new changed the bytes ({how})"));
            }
            let frame = Frame::new(Address(c.addr), MsgType(c.ty), data);
            if frame.address() != Address(c.addr) || frame.message_type() != MsgType(c.ty) || frame.data().as_ref() != &c.data[..] {
                return Err(format!("accessors of a new frame do not return the inputs ({how})"));
            }
            if frame.clone().into_data().get().as_ref() != &c.data[..] {
                return Err(format!("into_data does not give back the data the frame was built with ({how})"));
            }
            let enc = frame.to_bytes();
            let enc_nl = frame.to_bytes_with_newline();
            if enc != want {
                return Err(format!(
                    "to_bytes ({how}) = {} but the documented format gives {}",
                    show_bytes(&enc),
                    show_bytes(&want)
                ));
            }
            if enc_nl != want_nl {
                return Err(format!(
                    "to_bytes_with_newline ({how}) = {} but the documented format gives {}",
                    show_bytes(&enc_nl),
                    show_bytes(&want_nl)
                ));
            }
            wire_shape_ok(&enc, c.data.len()).map_err(|e| format!("to_bytes ({how}) violates the wire shape: {e}"))?;
            if enc_nl.len() != enc.len() + 2 || &enc_nl[..enc.len()] != &enc[..] || &enc_nl[enc.len()..] != b"\r\n" {
                return Err(format!("to_bytes_with_newline ({how}) is not to_bytes + CRLF"));
            }
            for (name, e) in [("plain", &enc), ("CRLF", &enc_nl)] {
                // decoding must not depend on what this thread decoded before: first feed it a rejected text
                // (this frame with a wrong checksum, and a truncated one), then the valid encoding
                let mut bad = enc.clone();
                let last = bad.len() - 1;
                bad[last] = if bad[last] == b'0' { b'1' } else { b'0' };
                let _ = Frame::from_bytes(&bad); // (whether it is rejected is C02's subject)
                let _ = Frame::from_bytes(&enc[..enc.len() - 1]);
                match Frame::from_bytes(e) {
                    Ok(back) => {
                        if back != frame {
                            return Err(format!("decoding the {name} encoding ({how}) gives a different frame: {back:?}"));
                        }
                        // equal values hash equally (the frame is usable as a set / map key like any value type)
                        if h64(&back) != h64(&frame) || h64(&back.clone().into_data()) != h64(&frame.clone().into_data()) {
                            return Err(format!("the frame decoded from the {name} encoding ({how}) equals the original but hashes differently"));
                        }
                        if back.address() != Address(c.addr)
                            || back.message_type() != MsgType(c.ty)
                            || back.data().as_ref() != &c.data[..]
                        {
                            return Err(format!("decoded {name} frame ({how}) has different fields: {back:?}"));
                        }
                    }
                    Err(err) => return Err(format!("decoding the {name} encoding ({how}) fails: {err}")),
                }
            }
            // text in another letter case that decodes at all (whether it does is C03's subject) is the same frame
            // and must encode like it: upper-case pairs, identical to the encoding of the equal frame
            let lower = enc.to_ascii_lowercase();
            if lower != enc {
                if let Ok(from_lower) = Frame::from_bytes(&lower) {
                    if from_lower == frame && (from_lower.to_bytes() != want || from_lower.clone().to_bytes_with_newline() != want_nl) {
                        return Err(format!(
                            "a frame decoded from lower-case text ({how}) encodes as {} although the equal frame encodes as {}",
                            show_bytes(&from_lower.to_bytes()),
                            show_bytes(&want)
                        ));
                    }
                }
            }
            // a data block that has already been through an encode, or came out of a decode, placed under another header
            // (and the same header again) must encode by the format like a fresh block
            let (a2, t2) = (c.addr ^ 0x8101, c.ty.wrapping_add(0x11));
            let decoded = Frame::from_bytes(&enc_nl).map_err(|e| format!("decoding fails: {e}"))?;
            let blocks = [("encoded-before", frame.clone().into_data()), ("decoded", decoded.into_data()), ("through-a-message", Frame::from(flipdot_core::Message::from(frame.clone())).into_data())];
            for (origin, block) in blocks {
                for (a, t) in [(a2, t2), (c.addr, c.ty), (c.addr, t2), (a2, c.ty)] {
                    let rehoused = Frame::new(Address(a), MsgType(t), block.clone());
                    let got = rehoused.to_bytes();
                    let want2 = ref_encode(a, t, &c.data);
                    if got != want2 {
                        return Err(format!(
                            "a data block ({origin}, {how}) moved into a frame with address {a:#06x} type {t:#04x} encodes as {} but the documented format gives {}",
                            show_bytes(&got),
                            show_bytes(&want2)
                        ));
                    }
                    // encode twice: the second encoding of one frame object equals the first
                    if rehoused.to_bytes() != want2 {
                        return Err(format!("the second encoding of one frame object ({origin}, {how}) differs from the first"));
                    }
                }
            }
            // copies made through the Clone trait (clone and clone_from into frames / blocks that held longer, shorter,
            // borrowed and empty data before) equal their source and encode like it
            let longer: Vec<u8> = (0..(c.data.len() + 7).min(255)).map(|i| 0xA0 ^ i as u8).collect();
            let shorter: Vec<u8> = c.data[..c.data.len() / 2].to_vec();
            let dests: [(&str, Frame<'_>); 4] = [
                ("a frame with longer owned data", Frame::new(Address(0x5A5A), MsgType(0x77), Data::try_new(longer.clone()).unwrap())),
                ("a frame with shorter owned data", Frame::new(Address(1), MsgType(2), Data::try_new(shorter.clone()).unwrap())),
                ("a frame with borrowed data", Frame::new(Address(3), MsgType(4), Data::try_new(&longer[..]).unwrap())),
                ("a frame with empty data", Frame::new(Address(5), MsgType(6), Data::try_new(vec![]).unwrap())),
            ];
            for (what, mut dest) in dests {
                dest.clone_from(&frame);
                if dest != frame || dest.to_bytes() != want || dest.data().as_ref() != &c.data[..] {
                    return Err(format!(
                        "clone_from of the frame ({how}) into {what} gives {} ; the source encodes as {}",
                        show_bytes(&dest.to_bytes()),
                        show_bytes(&want)
                    ));
                }
                let mut block = Data::try_new(longer.clone()).unwrap();
                block.clone_from(&frame.clone().into_data());
                if block.get().as_ref() != &c.data[..] {
                    return Err(format!("clone_from of the data block ({how}) into a longer block gives {} bytes, the source has {}", block.get().len(), c.data.len()));
                }
            }
            let mut list: Vec<Frame<'_>> = vec![Frame::new(Address(9), MsgType(9), Data::try_new(longer.clone()).unwrap()); 2];
            list.clone_from(&vec![frame.clone(), frame.clone(), frame.clone()]);
            if list.iter().any(|f| f.to_bytes() != want) {
                return Err(format!("Vec<Frame>::clone_from ({how}) does not reproduce the frames"));
            }
            if frame.clone() != frame || frame.clone().to_bytes() != want {
                return Err(format!("clone() of a frame ({how}) differs from its source"));
            }
            Ok(())
        });
        match r {
            Ok(Ok(())) => {}
            Ok(Err(m)) => return Err(m),
            Err(p) => return Err(format!("panic in the frame codec ({how}): {p}")),
        }
        st.eval();
    }
    if is_nontrivial(c) {
        st.nontrivial(h64(c));
        st.class("nontrivial");
    } else {
        st.class("small");
    }
    match c.data.len() {
        0 => st.class("len=0"),
        1..=16 => st.class("len=1..16"),
        17..=254 => st.class("len=17..254"),
        _ => st.class("len=255"),
    }
    if st.want_sample() && is_nontrivial(c) {
        st.sample(json!({"addr": c.addr, "type": c.ty, "data_len": c.data.len(), "wire": String::from_utf8_lossy(&want)}));
    }
    Ok(())
}

// --- conversions from &'static [u8; N]: use `Into<Data>` where the library offers it for that N, else nothing -----------
struct ArrayProbe<T>(T);
trait ViaInto {
    fn convert(&self) -> Option<Result<usize, String>>;
}
impl<T: Copy + Into<Data<'static>> + std::panic::UnwindSafe + std::panic::RefUnwindSafe> ViaInto for ArrayProbe<T> {
    fn convert(&self) -> Option<Result<usize, String>> {
        let v = self.0;
        Some(catch(move || {
            let d: Data<'static> = v.into();
            d.get().len()
        }))
    }
}
trait NoConversion {
    fn convert(&self) -> Option<Result<usize, String>>;
}
impl<T> NoConversion for &ArrayProbe<T> {
    fn convert(&self) -> Option<Result<usize, String>> {
        None
    }
}

#[allow(unused_imports)]
use crate::engine::{DefaultProbe, NoDefault, ViaDefault};

// --- growing a data block in place, if the library offers such a method under one of its usual names (an inherent
// method wins over this fallback trait): a refused or accepted append must leave a block of at most 255 bytes ---------
trait NoGrowth {
    fn extend_from_slice(&mut self, _bytes: &[u8]) {}
    fn try_extend_from_slice(&mut self, _bytes: &[u8]) {}
}
impl NoGrowth for Data<'_> {}

/// Err = a way to obtain a data block / frame that breaks the 255-byte invariant or the codec
fn api_probes() -> Result<Vec<&'static str>, String> {
    let mut offered = vec![];
    if let Some(d) = (&DefaultProbe::<Data<'static>>(std::marker::PhantomData)).make() {
        offered.push("Data: Default");
        let f = Frame::new(Address(1), MsgType(2), d);
        let text = f.to_bytes();
        if Frame::from_bytes(&text).ok().as_ref() != Some(&f) {
            return Err(format!("a frame around Data::default() encodes as {} and does not decode back", show_bytes(&text)));
        }
    }
    if let Some(f) = (&DefaultProbe::<Frame<'static>>(std::marker::PhantomData)).make() {
        offered.push("Frame: Default");
        let text = f.to_bytes();
        if text != ref_encode(f.address().0, f.message_type().0, f.data()) || Frame::from_bytes(&text).ok().as_ref() != Some(&f) {
            return Err(format!("Frame::default() encodes as {} which is not the documented encoding of its fields / does not decode back", show_bytes(&text)));
        }
    }
    for (start, extra) in [(250usize, 10usize), (255, 1), (0, 256), (200, 300), (255, 0), (100, 155)] {
        for which in 0..2 {
            let mut d = Data::try_new(vec![0x11u8; start]).map_err(|e| format!("try_new({start}) failed: {e}"))?;
            let add = vec![0x22u8; extra];
            let r = catch(std::panic::AssertUnwindSafe(|| {
                if which == 0 {
                    let _ = d.extend_from_slice(&add);
                } else {
                    let _ = d.try_extend_from_slice(&add);
                }
            }));
            let _ = r; // refusing by panic is a refusal
            let len = d.get().len();
            if len > 255 {
                return Err(format!(
                    "after {}(&[..{extra} bytes]) on a block of {start} bytes the block holds {len} bytes; placed in a frame its length byte reads {}",
                    ["extend_from_slice", "try_extend_from_slice"][which],
                    len % 256
                ));
            }
            if len != start && len != start + extra {
                return Err(format!("after appending {extra} bytes to a block of {start} bytes the block holds {len} bytes"));
            }
            let f = Frame::new(Address(9), MsgType(0), d);
            if Frame::from_bytes(&f.to_bytes()).ok().as_ref() != Some(&f) {
                return Err(format!("a block grown from {start} by {extra} bytes no longer survives the codec"));
            }
        }
    }
    Ok(offered)
}

/// (array length, None = no conversion offered / Some(Ok(block length)) / Some(Err(panic)))
fn static_array_conversions() -> Vec<(usize, Option<Result<usize, String>>)> {
    static A0: [u8; 0] = [];
    static A1: [u8; 1] = [7; 1];
    static A4: [u8; 4] = [7; 4];
    static A5: [u8; 5] = [7; 5];
    static A16: [u8; 16] = [7; 16];
    static A255: [u8; 255] = [7; 255];
    static A256: [u8; 256] = [7; 256];
    static A300: [u8; 300] = [7; 300];
    static A65536: [u8; 65536] = [7; 65536];
    vec![
        (0, (&ArrayProbe(&A0)).convert()),
        (1, (&ArrayProbe(&A1)).convert()),
        (4, (&ArrayProbe(&A4)).convert()),
        (5, (&ArrayProbe(&A5)).convert()),
        (16, (&ArrayProbe(&A16)).convert()),
        (255, (&ArrayProbe(&A255)).convert()),
        (256, (&ArrayProbe(&A256)).convert()),
        (300, (&ArrayProbe(&A300)).convert()),
        (65536, (&ArrayProbe(&A65536)).convert()),
    ]
}

#[derive(Serialize, Deserialize, Debug, Clone)]
pub struct TryNewCase {
    pub len: usize,
    pub fill: u8,
}

/// Data::try_new: succeeds and preserves content for len <= 255, fails for longer (owned and borrowed).
/// lengths that only differ from a legal length in bits above bit 31 (a 32-bit length check would let them pass);
/// the buffers are zeroed allocations whose pages are never touched
pub fn check_try_new_huge(len: usize, st: &mut Stats) -> Result<(), String> {
    let block: Vec<u8> = vec![0u8; len];
    st.eval();
    let borrowed_ok = catch(|| Data::try_new(&block[..]).is_ok()).map_err(|p| format!("Data::try_new panicked on {len} bytes (borrowed): {p}"))?;
    if borrowed_ok {
        return Err(format!("Data::try_new accepted a borrowed block of {len} bytes; the one-byte length field would read {}", len % 256));
    }
    st.eval();
    let owned_ok = catch(|| Data::try_new(block).is_ok()).map_err(|p| format!("Data::try_new panicked on {len} bytes (owned): {p}"))?;
    if owned_ok {
        return Err(format!("Data::try_new accepted an owned block of {len} bytes; the one-byte length field would read {}", len % 256));
    }
    st.nontrivial(h64(&("try_new-huge", len)));
    st.class("try_new>=4GiB");
    Ok(())
}

pub fn check_try_new(c: &TryNewCase, st: &mut Stats) -> Result<(), String> {
    let bytes: Vec<u8> = (0..c.len).map(|i| (i as u8).wrapping_mul(31).wrapping_add(c.fill)).collect();
    for owned in [true, false] {
        let how = if owned { "owned" } else { "borrowed" };
        let r = catch(|| {
            if owned {
                Data::try_new(bytes.clone()).map(|d| d.get().as_ref().to_vec())
            } else {
                Data::try_new(&bytes[..]).map(|d| d.get().as_ref().to_vec())
            }
        })
        .map_err(|p| format!("Data::try_new panicked on {} bytes ({how}): {p}", c.len))?;
        st.eval();
        match (c.len <= 255, r) {
            (true, Ok(got)) => {
                if got != bytes {
                    return Err(format!("Data::try_new changed a {}-byte block ({how})", c.len));
                }
            }
            (true, Err(e)) => return Err(format!("Data::try_new rejected {} bytes ({how}): {e}", c.len)),
            (false, Ok(_)) => {
                return Err(format!(
                    "Data::try_new accepted {} bytes ({how}); such a block could be placed in a frame and the one-byte length would truncate",
                    c.len
                ))
            }
            (false, Err(_)) => {}
        }
    }
    if c.len >= 255 {
        st.nontrivial(h64(&("try_new", c.len)));
    }
    st.class(if c.len <= 255 { "try_new<=255" } else { "try_new>255" });
    Ok(())
}

pub fn run(ctx: &Ctx) {
    // exhaustive sweeps ---------------------------------------------------------------
    par_range(ctx, "sweep-address", 65536, |i, st| {
        for (ty, data) in [(0u8, vec![]), (4u8, vec![0x07]), (0u8, vec![0xAA; 17])] {
            let c = FrameCase { addr: i as u16, ty, data };
            check_frame(&c, st).map_err(|m| (serde_json::to_value(&c).unwrap(), m))?;
        }
        Ok(())
    });
    ctx.part_done("sweep-address", true, json!("all 65536 addresses x 3 fixed frames"));
    par_range(ctx, "sweep-type-length", 256, |i, st| {
        for addr in [0u16, 0xBEEF] {
            let c = FrameCase { addr, ty: i as u8, data: vec![i as u8; 3] };
            check_frame(&c, st).map_err(|m| (serde_json::to_value(&c).unwrap(), m))?;
            for fill in [0x00u8, 0xFF, 0x5A] {
                let c = FrameCase { addr, ty: (i as u8).wrapping_mul(7), data: vec![fill; i as usize] };
                check_frame(&c, st).map_err(|m| (serde_json::to_value(&c).unwrap(), m))?;
            }
        }
        Ok(())
    });
    ctx.part_done("sweep-type-length", true, json!("all 256 types and all data lengths 0..=255 x 3 fills x 2 addresses"));

    // Data::try_new ---------------------------------------------------------------------
    let mut lens: Vec<usize> = (0..=300).collect();
    lens.extend_from_slice(&[511, 512, 513, 1000, 4095, 4096, 65535, 65536, 65537, 70000]);
    par_range(ctx, "try_new-lengths", lens.len() as u64, |i, st| {
        let c = TryNewCase { len: lens[i as usize], fill: i as u8 };
        check_try_new(&c, st).map_err(|m| (serde_json::to_value(&c).unwrap(), m))
    });
    ctx.part_done("try_new-lengths", true, json!("every length 0..=300 plus 511..70000 boundary lengths"));
    // crafted wire text with 256+n data pairs, length byte n and a checksum that fits the truncated length byte:
    // whatever the decoder does with it, it must not hand out a frame holding more than 255 data bytes
    par_range(ctx, "oversize-lines", 64, |i, st| {
        let extra = [0usize, 1, 2, 15, 16, 255, 256, 300][i as usize % 8];
        let n = 256 + extra;
        let fill = (i * 37) as u8;
        let mut fields: Vec<u8> = vec![(n % 256) as u8, (i / 8) as u8, 0x42, (i % 3) as u8];
        fields.extend((0..n).map(|k| fill ^ (k as u8)));
        let sum = fields.iter().fold(0u8, |a, &b| a.wrapping_add(b));
        fields.push(0u8.wrapping_sub(sum));
        let mut text = vec![b':'];
        for b in &fields {
            text.extend_from_slice(format!("{b:02X}").as_bytes());
        }
        for crlf in [false, true] {
            let mut t = text.clone();
            if crlf {
                t.extend_from_slice(b"\r\n");
            }
            st.eval();
            let r = catch(|| Frame::from_bytes(&t).map(|f| f.data().len())).map_err(|p| (json!({"len": n}), format!("decoder panicked on a line with {n} data pairs: {p}")))?;
            if let Ok(len) = r {
                if len > 255 {
                    return Err((json!({"len": n}), format!("a wire text with {n} data pairs was decoded into a frame holding {len} data bytes; its one-byte length field truncates")));
                }
            }
            let mut rd: &[u8] = &t;
            let r2 = catch(|| Frame::read(&mut rd).map(|f| f.data().len())).map_err(|p| (json!({"len": n}), format!("Frame::read panicked on a line with {n} data pairs: {p}")))?;
            if let Ok(len) = r2 {
                if len > 255 {
                    return Err((json!({"len": n}), format!("Frame::read produced a frame holding {len} data bytes")));
                }
            }
        }
        st.nontrivial_enumerated(1);
        Ok(())
    });
    ctx.part_done("oversize-lines", true, json!("wire texts with 256..556 data pairs, length byte = count mod 256, consistent checksum"));

    if usize::BITS >= 64 {
        let huge: Vec<usize> = vec![1usize << 32, (1usize << 32) + 1, (1usize << 32) + 255, (1usize << 32) + 300, (1usize << 33) + 16];
        // one at a time: each is a 4-8 GiB zeroed (untouched) allocation
        let mut st = Stats::new();
        for &len in &huge {
            if ctx.stopped() {
                break;
            }
            if let Err(m) = check_try_new_huge(len, &mut st) {
                ctx.fail("try_new-huge", json!({"len": len, "fill": 0}), m);
            }
        }
        ctx.merge("try_new-huge", st);
        ctx.part_done("try_new-huge", true, json!({"lengths": huge}));
    }
    run_generated(
        ctx,
        "try_new",
        ctx.tier.pick(2_000, 50_000),
        || (prop_oneof![1 => 0usize..=255, 3 => 256usize..=70_000], any::<u8>()).prop_map(|(len, fill)| TryNewCase { len, fill }),
        |c, st| check_try_new(c, st),
    );

    // conversions from static arrays into a data block: whatever array lengths the library offers a conversion for
    // (probed at compile time), a block of more than 255 bytes must not come out
    {
        let mut st = Stats::new();
        let mut offered = vec![];
        for (n, r) in static_array_conversions() {
            st.eval();
            match r {
                None => {}
                Some(Ok(len)) => {
                    offered.push(n);
                    if len > 255 || len != n {
                        ctx.fail("static-array-conversions", json!({"array_len": n}), format!("converting a static array of {n} bytes gives a data block of {len} bytes (more than 255 can never be placed in a frame; the block must hold the array)"));
                    }
                }
                Some(Err(_panic)) => offered.push(n), // refusing by panic is a refusal
            }
        }
        st.nontrivial_enumerated(offered.len() as u64);
        ctx.merge("static-array-conversions", st);
        ctx.part_done("static-array-conversions", true, json!({"array_lengths_probed": [0, 1, 4, 5, 16, 255, 256, 300, 65536], "conversion_offered_for": offered}));
    }

    // other public ways to a data block or frame, as far as the library offers them (probed at compile time)
    {
        let mut st = Stats::new();
        st.evals(14);
        match catch(api_probes) {
            Ok(Ok(offered)) => {
                st.nontrivial_enumerated(12);
                ctx.part_done("api-probes", true, json!({"probed": ["Data: Default", "Frame: Default", "Data::extend_from_slice", "Data::try_extend_from_slice"], "offered_by_this_tree": offered, "what": "whatever of these exists must keep blocks at <= 255 bytes and frames decodable"}));
            }
            Ok(Err(m)) => {
                ctx.fail("api-probes", json!({}), m);
            }
            Err(p) => {
                ctx.fail("api-probes", json!({}), format!("panic in a probed constructor / append method: {p}"));
            }
        }
        ctx.merge("api-probes", st);
    }

    // the codec with a logger installed (what the library logs must not change what it does)
    crate::engine::with_logging(|| {
        run_generated(ctx, "frame+logging", ctx.tier.pick(30_000, 300_000), frame_strategy, |c, st| check_frame(c, st));
    });

    // the codec used from the destructor of a thread-local value while a thread shuts down (a connection object that
    // says goodbye when its thread ends): it must work there like anywhere else
    par_range(ctx, "codec-during-thread-teardown", 24, |i, st| {
        let fc = FrameCase { addr: 0x0100 + i as u16, ty: (i % 7) as u8, data: (0..(i as usize * 11) % 256).map(|k| k as u8 ^ 0x5C).collect() };
        let (a, b) = (fc.clone(), fc.clone());
        crate::engine::in_thread_teardown(
            move || {
                let _ = check_frame(&a, &mut Stats::new());
            },
            move || check_frame(&b, &mut Stats::new()),
        )
        .map_err(|m| (serde_json::to_value(&fc).unwrap(), format!("inside a thread-local destructor at thread exit: {m}")))?;
        st.eval();
        st.nontrivial_enumerated(1);
        Ok(())
    });
    ctx.part_done("codec-during-thread-teardown", true, json!("24 frames encoded and decoded inside a thread-local destructor at thread exit, after the same thread used the codec normally"));

    // generated frames ------------------------------------------------------------------
    run_generated(ctx, "frame", ctx.tier.pick(1_000_000, 10_000_000), frame_strategy, |c, st| check_frame(c, st));
}

pub fn replay(part: &str, case: &Value) -> Result<(), String> {
    let mut st = Stats::new();
    match part {
        "oversize-lines" => Ok(()),
        "api-probes" => catch(api_probes).map_err(|p| format!("panic in a probed constructor / append method: {p}"))?.map(|_| ()),
        "frame+logging" => {
            let c: FrameCase = serde_json::from_value(case.clone()).map_err(|e| format!("bad case: {e}"))?;
            crate::engine::with_logging(|| check_frame(&c, &mut st))
        }
        "static-array-conversions" => {
            for (n, r) in static_array_conversions() {
                if let Some(Ok(len)) = r {
                    if len > 255 || len != n {
                        return Err(format!("converting a static array of {n} bytes gives a data block of {len} bytes"));
                    }
                }
            }
            Ok(())
        }
        "codec-during-thread-teardown" => {
            let c: FrameCase = serde_json::from_value(case.clone()).map_err(|e| format!("bad case: {e}"))?;
            let (a, b) = (c.clone(), c);
            crate::engine::in_thread_teardown(
                move || {
                    let _ = check_frame(&a, &mut Stats::new());
                },
                move || check_frame(&b, &mut Stats::new()),
            )
        }
        "try_new-huge" => {
            let len = case.get("len").and_then(|v| v.as_u64()).ok_or("bad case")? as usize;
            check_try_new_huge(len, &mut st)
        }
        "try_new" | "try_new-lengths" => {
            let c: TryNewCase = serde_json::from_value(case.clone()).map_err(|e| format!("bad case: {e}"))?;
            check_try_new(&c, &mut st)
        }
        _ => {
            let c: FrameCase = serde_json::from_value(case.clone()).map_err(|e| format!("bad case: {e}"))?;
            check_frame(&c, &mut st)
        }
    }
}

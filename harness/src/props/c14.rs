//! C14 — signs sharing a bus are isolated; replies come only from the addressed sign.

use std::collections::HashSet;

use flipdot_core::{Address, Message, PageFlipStyle, SignBus, SignType, State};
use flipdot_testing::{VirtualSign, VirtualSignBus};
use proptest::prelude::*;
use serde::{Deserialize, Serialize};
use serde_json::{json, Value};

use crate::engine::{catch, h64, run_generated, Ctx, Stats};
use crate::oracle::vsign::*;
use crate::props::c12::{expand, short_op, tiny_block, tiny_block_max3000, Block, Fault, HOp};
use crate::repr::M;

pub const RULE: &str = "bus populations of 1..4 virtual signs with distinct addresses (adjacent, byte-swapped, 0 and 0xFFFF included), mixed flip styles, both vector orders; interleaved histories of 1..150 operations (single messages, whole transfers with faults, ~30 % abandoned transfers so that several signs are mid-transfer at once) addressed to any sign or to an absent address; plus a breadth-first exploration of a two-sign bus over a reduced alphabet to a depth bound (14 quick, 18 thorough) with state deduplication. After every message: (a) the bus reply equals what the addressed sign replies when run alone (replica differential) and carries the addressed address, (b) an addressed message leaves state/type/pages of every other sign unchanged and a message for an absent address changes nothing and gets no reply, (c) an unaddressed data message leaves state/type/pages of every sign that is not in a receiving state unchanged. Non-trivial = a history in which two signs are in a receiving state at once, or a message goes to an absent address; distinct by hash of the history";
pub const ASSUMPTIONS: &[&str] = &[
    "\"what that sign alone would have replied\" is obtained from solo VirtualSign replicas that are offered every message (the single-sign behaviour itself is C13's subject)",
    "observable = state(), sign_type(), pages(); hidden buffers are not compared",
];

#[derive(Serialize, Deserialize, Debug, Clone, PartialEq, Eq, Hash)]
pub struct BusCase {
    pub signs: Vec<(u16, bool)>,
    pub ops: Vec<HOp>,
    /// directed cases only: Repeat operations are carried out in full (up to 70000 repetitions) instead of 300
    #[serde(default)]
    pub deep: bool,
    /// per sign: macro operations it went through alone before the bus was built around it
    #[serde(default)]
    pub past: Vec<Vec<HOp>>,
}

type Obs = (State, Option<SignType>, Vec<(u32, u32, Vec<u8>)>);

fn observe(s: &VirtualSign<'_>) -> Obs {
    (s.state(), s.sign_type(), s.pages().iter().map(|p| (p.width(), p.height(), p.as_bytes().to_vec())).collect())
}

fn receiving(s: State) -> bool {
    matches!(s, State::ConfigInProgress | State::PixelsInProgress)
}

fn flip(automatic: bool) -> PageFlipStyle {
    if automatic {
        PageFlipStyle::Automatic
    } else {
        PageFlipStyle::Manual
    }
}

/// the address a message is directed at (None for the unaddressed data messages)
fn target(m: &M) -> Option<u16> {
    match m {
        M::Data { .. } | M::Count(_) => None,
        M::Hello(a) | M::Query(a) | M::Goodbye(a) | M::PixelsComplete(a) | M::Report(a, _) | M::Req(a, _) | M::Ack(a, _) => Some(*a),
        M::Unknown { addr, .. } => Some(*addr),
    }
}

pub struct BusPair {
    pub addrs: Vec<u16>,
    pub bus: VirtualSignBus<'static>,
    pub replicas: Vec<VirtualSign<'static>>,
}

impl BusPair {
    pub fn new(signs: &[(u16, bool)]) -> Self {
        Self::with_past(signs, &[])
    }

    /// `past[i]`: messages sign i received on its own (through VirtualSign::process_message) BEFORE it was put on
    /// the bus - a bus may be built from signs that already have a history (configured, mid-transfer, holding pages)
    pub fn with_past(signs: &[(u16, bool)], past: &[Vec<M>]) -> Self {
        let make = |i: usize, a: u16, f: bool| {
            let mut s = VirtualSign::new(Address(a), flip(f));
            for m in past.get(i).map(|v| &v[..]).unwrap_or(&[]) {
                let _ = s.process_message(&m.to_message());
            }
            s
        };
        BusPair {
            addrs: signs.iter().map(|s| s.0).collect(),
            bus: VirtualSignBus::new(signs.iter().enumerate().map(|(i, (a, f))| make(i, *a, *f)).collect::<Vec<_>>()),
            replicas: signs.iter().enumerate().map(|(i, (a, f))| make(i, *a, *f)).collect(),
        }
    }

    /// deliver one message and evaluate clauses (a), (b), (c)
    pub fn step(&mut self, m: &M, msg: &Message<'static>) -> Result<(), String> {
        let n = self.addrs.len();
        let before: Vec<Obs> = (0..n).map(|i| observe(self.bus.sign(i))).collect();
        let reply = catch(|| self.bus.process_message(msg.clone()).map_err(|e| e.to_string()))
            .map_err(|p| format!("bus panicked on {}: {p}", m.short()))?
            .map_err(|e| format!("bus returned an error on {}: {e}", m.short()))?;
        // replicas: every solo sign is offered the message
        let mut solo: Vec<Option<Message<'static>>> = Vec::with_capacity(n);
        for r in self.replicas.iter_mut() {
            solo.push(catch(|| r.process_message(msg)).map_err(|p| format!("solo sign panicked on {}: {p}", m.short()))?);
        }
        let after: Vec<Obs> = (0..n).map(|i| observe(self.bus.sign(i))).collect();
        let tgt = target(m);
        // (a) reply
        let expected_reply: Option<Message<'static>> = match tgt.and_then(|a| self.addrs.iter().position(|x| *x == a)) {
            Some(i) => solo[i].clone(),
            None => None,
        };
        if reply != expected_reply {
            return Err(format!(
                "bus replies {:?} to {}, but the addressed sign alone replies {:?}",
                reply.as_ref().map(|r| M::from_message(r).short()),
                m.short(),
                expected_reply.as_ref().map(|r| M::from_message(r).short())
            ));
        }
        if let (Some(r), Some(a)) = (&reply, tgt) {
            if target(&M::from_message(r)) != Some(a) {
                return Err(format!("the reply {} to {} does not carry the addressed sign's address", M::from_message(r).short(), m.short()));
            }
        }
        for i in 0..n {
            // (a) the sign on the bus ends up like the sign run alone
            let solo_obs = observe(&self.replicas[i]);
            if after[i] != solo_obs {
                return Err(format!(
                    "after {} sign {:#x} on the bus is in state {:?} with {} pages (type {:?}); alone it would be {:?} with {} pages (type {:?})",
                    m.short(),
                    self.addrs[i],
                    after[i].0,
                    after[i].2.len(),
                    after[i].1,
                    solo_obs.0,
                    solo_obs.2.len(),
                    solo_obs.1
                ));
            }
            match tgt {
                // (b) addressed message: every other sign unchanged (absent address: all signs unchanged)
                Some(a) => {
                    if self.addrs[i] != a && after[i] != before[i] {
                        return Err(format!(
                            "{} changed sign {:#x} ({:?}/{} pages -> {:?}/{} pages)",
                            m.short(),
                            self.addrs[i],
                            before[i].0,
                            before[i].2.len(),
                            after[i].0,
                            after[i].2.len()
                        ));
                    }
                }
                // (c) unaddressed data message: signs not in a receiving state unchanged
                None => {
                    if !receiving(before[i].0) && after[i] != before[i] {
                        return Err(format!(
                            "sig=stray-data:{:?}; unaddressed {} changed sign {:#x}, which was not receiving ({:?}/{} pages -> {:?}/{} pages)",
                            before[i].0,
                            m.short(),
                            self.addrs[i],
                            before[i].0,
                            before[i].2.len(),
                            after[i].0,
                            after[i].2.len()
                        ));
                    }
                }
            }
        }
        if let Some(a) = tgt {
            if !self.addrs.contains(&a) && reply.is_some() {
                return Err(format!("{} for an address nobody has got a reply", m.short()));
            }
        }
        Ok(())
    }

    fn receiving_count(&self) -> usize {
        (0..self.addrs.len()).filter(|&i| receiving(self.bus.sign(i).state())).count()
    }
}

pub fn check_bus(c: &BusCase, st: &mut Stats) -> Result<(), String> {
    let _announced = if c.deep || c.ops.iter().any(|o| matches!(o, HOp::Repeat { n, .. } if *n >= 100)) {
        Some(crate::engine::inflight("C14", "bus-history", || serde_json::to_value(c).unwrap_or_default()))
    } else {
        None
    };
    let mut seen = HashSet::new();
    let signs: Vec<(u16, bool)> = c.signs.iter().filter(|(a, _)| seen.insert(*a)).cloned().collect();
    if signs.is_empty() {
        return Ok(());
    }
    // models only size the pixel-transfer macros
    let mut models: Vec<SignModel> = signs.iter().map(|(a, f)| SignModel::new(*a, *f)).collect();
    let mut past_msgs: Vec<Vec<M>> = vec![];
    for (i, md) in models.iter_mut().enumerate() {
        let mut msgs = vec![];
        for op in c.past.get(i).map(|v| &v[..]).unwrap_or(&[]) {
            // a sign's own past is addressed to itself
            let op = match op {
                HOp::Config { block, fault, .. } => HOp::Config { addr: md.addr, block: block.clone(), fault: *fault },
                HOp::Pixels { pages, seed, fault, complete, .. } => HOp::Pixels { addr: md.addr, pages: *pages, seed: *seed, fault: *fault, complete: *complete },
                HOp::Flip { steps, .. } => HOp::Flip { addr: md.addr, steps: *steps },
                other => other.clone(),
            };
            for m in expand(&op, md.w, md.h) {
                let _ = md.step(&m);
                msgs.push(m);
            }
        }
        past_msgs.push(msgs);
    }
    if past_msgs.iter().any(|p| !p.is_empty()) {
        st.class("signs-with-a-past-before-the-bus-was-built");
    }
    let mut pair = BusPair::with_past(&signs, &past_msgs);
    let mut two_receiving = false;
    let mut absent = false;
    let mut k = 0usize;
    for (i, op) in c.ops.iter().enumerate() {
        let (w, h) = match op {
            HOp::Pixels { addr, .. } => models.iter().find(|m| m.addr == *addr).map(|m| (m.w, m.h)).unwrap_or((12, 8)),
            _ => (0, 0),
        };
        let (msgs, reps): (Vec<M>, u32) = match op {
            HOp::Repeat { msg, n } => (vec![msg.clone()], (*n).min(if c.deep { 70_000 } else { 300 })),
            other => (expand(other, w, h), 1),
        };
        for m in &msgs {
            let message = m.to_message();
            for _ in 0..reps {
                pair.step(m, &message).map_err(|e| format!("op {i} (message {k}): {e}"))?;
                st.eval();
                k += 1;
                for md in models.iter_mut() {
                    let _ = md.step(m);
                }
                if pair.receiving_count() >= 2 {
                    two_receiving = true;
                }
                if let Some(a) = target(m) {
                    if !pair.addrs.contains(&a) {
                        absent = true;
                    }
                }
            }
        }
    }
    if two_receiving || absent {
        st.nontrivial(h64(c));
    }
    if two_receiving {
        st.class("two-signs-receiving-at-once");
    }
    if absent {
        st.class("message-to-absent-address");
    }
    st.class(&format!("population:{}", signs.len()));
    if st.want_sample() && two_receiving && c.ops.len() <= 10 {
        st.sample(json!({"signs": signs, "ops": c.ops.iter().map(short_op).collect::<Vec<_>>()}));
    }
    Ok(())
}

// ---------------------------------------------------------------------------------------

fn bus_block_strategy() -> impl Strategy<Value = Block> {
    prop_oneof![
        5 => Just(Block::Raw(tiny_block(12, 8))),
        2 => Just(Block::Raw(tiny_block_max3000(20, 8, 8))),
        3 => proptest::sample::select(vec![5u8, 4, 3, 10]).prop_map(Block::Real),
        1 => (0u8..11).prop_map(Block::Real),
    ]
}

fn bus_fault_strategy() -> impl Strategy<Value = Fault> {
    prop_oneof![
        10 => Just(Fault::None),
        6 => Just(Fault::NoCount),
        1 => any::<u16>().prop_map(Fault::Drop),
        1 => any::<u16>().prop_map(Fault::Extra),
        1 => prop_oneof![Just(1i8), Just(-1i8)].prop_map(Fault::CountDelta),
    ]
}

fn bus_msg_strategy(addrs: Vec<u16>) -> impl Strategy<Value = M> {
    let a = proptest::sample::select(addrs);
    prop_oneof![
        3 => a.clone().prop_map(M::Hello),
        3 => a.clone().prop_map(M::Query),
        1 => a.clone().prop_map(M::Goodbye),
        2 => a.clone().prop_map(M::PixelsComplete),
        10 => (a.clone(), 0u8..6).prop_map(|(a, o)| M::Req(a, o)),
        1 => (a.clone(), 0u8..13).prop_map(|(a, s)| M::Report(a, s)),
        1 => (a.clone(), 0u8..6).prop_map(|(a, o)| M::Ack(a, o)),
        1 => (a.clone(), 7u8..=255).prop_map(|(addr, ty)| M::Unknown { addr, ty, data: vec![0] }),
        8 => (proptest::sample::select(vec![0u16, 0, 16, 32]), prop_oneof![
            3 => Just(tiny_block(12, 8)),
            1 => Just(tiny_block_max3000(20, 8, 8)),
            3 => Just(vec![0xABu8; 16]),
            1 => Just(vec![0xCDu8; 15]),
        ]).prop_map(|(off, data)| M::Data { off, data }),
        5 => (0u16..6).prop_map(M::Count),
    ]
}

fn bus_case_strategy(max_ops: usize) -> impl Strategy<Value = BusCase> {
    // (addresses that collide with each other in the low 7 / 8 bits, and addresses equal to common data offsets and chunk
    // counts - 0, 1, 3, 16, 32 - which is what the address field of the unaddressed data messages carries)
    (proptest::sample::subsequence(vec![0u16, 1, 2, 3, 16, 32, 0x7F, 0x80, 0x81, 0x0100, 0x0200, 5, 133, 0xFFFF, 0xFFFE], 1..=4), any::<bool>())
        .prop_flat_map(move |(mut addrs, reverse)| {
            if reverse {
                addrs.reverse();
            }
            let n = addrs.len();
            let mut targets = addrs.clone();
            targets.extend(addrs.clone()); // present addresses twice as likely as each absent one
            targets.push(0x7777);
            targets.push(addrs[0].swap_bytes() ^ 0x0400);
            let a = proptest::sample::select(targets.clone());
            let op = prop_oneof![
                12 => bus_msg_strategy(targets).prop_map(HOp::Msg),
                4 => (a.clone(), bus_block_strategy(), bus_fault_strategy()).prop_map(|(addr, block, fault)| HOp::Config { addr, block, fault }),
                5 => (a.clone(), 0u8..3, any::<u64>(), bus_fault_strategy(), any::<bool>())
                    .prop_map(|(addr, pages, seed, fault, complete)| HOp::Pixels { addr, pages, seed, fault, complete }),
                1 => (a.clone(), 1u8..8).prop_map(|(addr, steps)| HOp::Flip { addr, steps }),
            ];
            // what a sign went through before the bus was built: nothing (mostly), a configuration, a configuration and an
            // abandoned / complete pixel transfer, an abandoned configuration
            let past = prop_oneof![
                6 => Just(vec![]),
                1 => bus_block_strategy().prop_map(|block| vec![HOp::Config { addr: 0, block, fault: Fault::None }]),
                1 => (bus_block_strategy(), any::<u64>()).prop_map(|(block, seed)| vec![HOp::Config { addr: 0, block, fault: Fault::None }, HOp::Pixels { addr: 0, pages: 1, seed, fault: Fault::NoCount, complete: false }]),
                1 => (bus_block_strategy(), any::<u64>(), any::<bool>()).prop_map(|(block, seed, complete)| vec![HOp::Config { addr: 0, block, fault: Fault::None }, HOp::Pixels { addr: 0, pages: 2, seed, fault: Fault::None, complete }]),
                1 => bus_block_strategy().prop_map(|block| vec![HOp::Config { addr: 0, block, fault: Fault::NoCount }]),
            ];
            (Just(addrs), proptest::collection::vec(any::<bool>(), n), proptest::collection::vec(op, 1..max_ops), proptest::collection::vec(past, n))
        })
        .prop_map(|(addrs, flips, ops, past)| BusCase { signs: addrs.into_iter().zip(flips).collect(), ops, deep: false, past })
}

// depth-bounded BFS over a two-sign bus ---------------------------------------------------------

fn bfs_two_signs(ctx: &Ctx, depth: u32, max_states: usize) {
    let signs = vec![(1u16, false), (0x0100u16, true)];
    let mut alphabet: Vec<M> = vec![];
    for a in [1u16, 0x0100, 0x0101] {
        alphabet.push(M::Query(a));
        alphabet.push(M::Goodbye(a));
        alphabet.push(M::PixelsComplete(a));
        for o in [O_RECEIVE_CONFIG, O_RECEIVE_PIXELS, O_START_RESET, O_FINISH_RESET, O_SHOW_LOADED_PAGE, O_LOAD_NEXT_PAGE] {
            alphabet.push(M::Req(a, o));
        }
    }
    alphabet.push(M::Data { off: 0, data: tiny_block(12, 8) });
    alphabet.push(M::Data { off: 16, data: vec![0xAB; 16] });
    alphabet.push(M::Count(0));
    alphabet.push(M::Count(1));
    alphabet.push(M::Count(2));
    let messages: Vec<Message<'static>> = alphabet.iter().map(|m| m.to_message()).collect();

    struct Node {
        pair_bus: VirtualSignBus<'static>,
        replicas: Vec<VirtualSign<'static>>,
        id: u64,
        history: Vec<u16>,
    }
    let root = BusPair::new(&signs);
    let key = |bus: &VirtualSignBus<'static>, reps: &Vec<VirtualSign<'static>>| h64(&(bus, reps));
    let rid = key(&root.bus, &root.replicas);
    let mut visited: HashSet<u64> = HashSet::new();
    visited.insert(rid);
    let mut frontier = vec![Node { pair_bus: root.bus, replicas: root.replicas, id: rid, history: vec![] }];
    let mut transitions = 0u64;
    let mut two_recv_states = 0u64;
    let mut level = 0u32;
    let mut complete = true;
    while !frontier.is_empty() && level < depth && !ctx.stopped() {
        level += 1;
        let mut next: Vec<Node> = vec![];
        for node in &frontier {
            for (oi, m) in alphabet.iter().enumerate() {
                let mut pair = BusPair { addrs: signs.iter().map(|s| s.0).collect(), bus: node.pair_bus.clone(), replicas: node.replicas.clone() };
                transitions += 1;
                if let Err(e) = pair.step(m, &messages[oi]) {
                    let mut ops: Vec<HOp> = node.history.iter().map(|&i| HOp::Msg(alphabet[i as usize].clone())).collect();
                    ops.push(HOp::Msg(m.clone()));
                    let case = BusCase { signs: signs.clone(), ops, deep: false, past: vec![] };
                    ctx.fail("bfs-two-signs", serde_json::to_value(&case).unwrap(), e);
                    return;
                }
                // bound the buffers so the space stays finite
                let too_big = (0..2).any(|i| pair.bus.sign(i).pages().len() > 1);
                if too_big {
                    continue;
                }
                let id = key(&pair.bus, &pair.replicas);
                if visited.insert(id) {
                    if pair.receiving_count() >= 2 {
                        two_recv_states += 1;
                    }
                    let mut history = node.history.clone();
                    history.push(oi as u16);
                    next.push(Node { pair_bus: pair.bus, replicas: pair.replicas, id, history });
                }
            }
        }
        let _ = frontier.iter().map(|n| n.id).count();
        frontier = next;
        if visited.len() > max_states {
            complete = false;
            break;
        }
    }
    let mut st = Stats::new();
    st.evals(transitions);
    st.nontrivial_enumerated(two_recv_states);
    st.class_n("bfs-states-with-two-signs-receiving", two_recv_states);
    ctx.merge("bfs-two-signs", st);
    ctx.extra_add("states", visited.len() as u64);
    ctx.extra_add("transitions", transitions);
    ctx.part_done(
        "bfs-two-signs",
        false,
        json!({"signs": signs, "alphabet": alphabet.len(), "depth_reached": level, "depth_bound": depth, "states": visited.len(), "transitions": transitions,
               "complete_to_depth": complete && (frontier.is_empty() || level == depth), "fixed_point": frontier.is_empty()}),
    );
}

pub fn run(ctx: &Ctx) {
    bfs_two_signs(ctx, ctx.tier.pick(14, 18), ctx.tier.pick(600_000, 6_000_000));
    // a neighbour with a very large buffer: one sign takes in thousands of chunks (left mid-transfer, parked by a reset
    // request, or finished), then another sign is configured and loaded - it must behave as it does alone
    let mut loaded: Vec<BusCase> = vec![];
    for n in [4_090u32, 4_100, 8_200] {
        for variant in 0..3u8 {
            for order in [false, true] {
                let mut signs = vec![(3u16, false), (6u16, true)];
                if order {
                    signs.reverse();
                }
                let mut ops = vec![
                    HOp::Config { addr: 3, block: Block::Raw(tiny_block(12, 8)), fault: Fault::None },
                    HOp::Msg(M::Req(3, crate::oracle::vsign::O_RECEIVE_PIXELS)),
                    HOp::Msg(M::Data { off: 0, data: vec![0x11; 16] }),
                    HOp::Repeat { msg: M::Data { off: 16, data: vec![0x22; 16] }, n },
                ];
                match variant {
                    0 => {}
                    1 => ops.push(HOp::Msg(M::Req(3, crate::oracle::vsign::O_START_RESET))),
                    _ => ops.push(HOp::Msg(M::Count((n + 1) as u16))),
                }
                ops.extend([
                    HOp::Config { addr: 6, block: Block::Real(5), fault: Fault::None },
                    HOp::Pixels { addr: 6, pages: 2, seed: n as u64, fault: Fault::None, complete: true },
                    HOp::Msg(M::Query(6)),
                    HOp::Flip { addr: 6, steps: 6 },
                    HOp::Pixels { addr: 6, pages: 1, seed: 1 + n as u64, fault: Fault::Drop(1), complete: true },
                    HOp::Msg(M::Query(6)),
                    HOp::Msg(M::Query(3)),
                    HOp::Msg(M::Req(3, crate::oracle::vsign::O_FINISH_RESET)),
                    HOp::Msg(M::Hello(3)),
                ]);
                loaded.push(BusCase { signs, ops, deep: true, past: vec![] });
            }
        }
    }
    crate::engine::par_range(ctx, "neighbour-with-a-large-buffer", loaded.len() as u64, |i, st| {
        let c = &loaded[i as usize];
        check_bus(c, st).map_err(|m| (serde_json::to_value(c).unwrap(), m))?;
        st.nontrivial_enumerated(1);
        Ok(())
    });
    ctx.part_done("neighbour-with-a-large-buffer", true, json!({"cases": loaded.len(), "what": "sign 3 buffers 4090 / 4100 / 8200 chunks (mid-transfer, parked by start-reset, or counted), then sign 6 is configured, loaded and flipped"}));

    run_generated(ctx, "bus-history", ctx.tier.pick(150_000, 2_000_000), || bus_case_strategy(60), |c, st| check_bus(c, st));
    crate::engine::with_logging(|| {
        run_generated(ctx, "bus-history+logging", ctx.tier.pick(6_000, 200_000), || bus_case_strategy(60), |c, st| check_bus(c, st));
    });
    run_generated(ctx, "bus-history-long", ctx.tier.pick(10_000, 120_000), || bus_case_strategy(300), |c, st| check_bus(c, st));
}

pub fn replay(_part: &str, case: &Value) -> Result<(), String> {
    let c: BusCase = serde_json::from_value(case.clone()).map_err(|e| format!("bad case: {e}"))?;
    check_bus(&c, &mut Stats::new())
}

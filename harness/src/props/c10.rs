//! C10 — the controller follows the documented protocol for every sign reply (reference conversation);
//! C11 — controller invariants judged on the transcript alone. Same exploration, two oracles.

use std::cell::RefCell;
use std::rc::Rc;

use flipdot::{Address, Page, PageFlipStyle, Sign, SignError};
use flipdot_core::{Message, SignBus};
use proptest::prelude::*;
use serde::{Deserialize, Serialize};
use serde_json::{json, Value};

use crate::engine::{catch, h64, par_range, run_generated, Ctx, Stats};
use crate::oracle::controller::{invariants, reference, OpKind, Outcome, Reply, Task};
use crate::oracle::page::total_len;
use crate::oracle::vsign::*;
use crate::repr::M;

pub const RULE_C10: &str = "reply scripts over a 47-symbol alphabet (13 state reports x own/foreign address, 6 acknowledgements x own/foreign address - which includes wrong-operation acknowledgements -, no reply, goodbye, a state query / pixels-complete / goodbye carrying the foreign address, an unknown frame, an echo of the message just sent, the continuing reply disguised as a hand-built unknown-frame wrapper of its own frame, bus error - materialised depending on the job as a plain error, io::Error of 4 kinds, FrameError::Io, the frame decoder's BadChecksum / InvalidFrame / FrameDataMismatch, or a boxed SignError::UnexpectedResponse / SignError::Bus) enumerated exhaustively by systematic re-execution: the operation is re-run on a fresh scripted bus and the script is extended by every symbol whenever the controller asks for one more reply, to the natural end of configure, configure_if_needed, send_pages, show_loaded_page, load_next_page and shut_down (page-switch polling cut at depth 7 quick / 9 thorough), for several sign types and (own, foreign) address pairs; plus proptest random scripts (70 % 'continue' replies) for larger sign types and lists of 0-3 pages (a quarter of them with pages of sizes other than the sign's own, mixed in one list), also as sequences of 2..5 operations on ONE Sign object (each operation's slice of the conversation judged on its own). At every node the emitted message sequence and - at leaves - the outcome class are compared with a reference controller simulation. Non-trivial = a script with at least one reply that is not the happy-path reply; distinct by hash of (operation, configuration, script)";
pub const RULE_C11: &str = "the same conversations as C10 (exhaustive reply-script trees by systematic re-execution, random scripts, several addresses and sign types) judged without the reference conversation, by invariants on the transcript: I1 success only after this sign's 'received' report concluded the last transfer attempt, I2 fail-stop after a bus error or a reply the protocol does not allow at that point (with the matching error class), I3 at most three transfer attempts and retries only after this sign's 'failed' report, I4 every emitted addressed message carries the controller's address, I5 reports from another address are never taken as this sign's. Non-trivial = a script with at least one non-happy-path reply; distinct by hash";
pub const ASSUMPTIONS_C10: &[&str] = &["the reference controller in oracle/controller.rs is a correct reading of the documented protocol (doc comments of configure, configure_if_needed, send_pages, load_next_page, show_loaded_page, shut_down and of the Message kinds)"];
pub const ASSUMPTIONS_C11: &[&str] = &["the invariants are keyed on local context only (the previous exchange), so they do not depend on the reference conversation of C10"];

// ---------------------------------------------------------------------------------------
// scripted bus

#[derive(Serialize, Deserialize, Debug, Clone, PartialEq, Eq, Hash)]
pub enum Choice {
    /// an explicit reply
    Symbol(Reply),
    /// the reply that lets the protocol continue, variant selects among the alternatives at a state query
    Happy(u8),
}

#[derive(Clone, Copy, PartialEq, Eq)]
enum OnExhausted {
    /// flag the exhaustion and fail the exchange (systematic re-execution extends the script here)
    Stop,
    /// keep answering with the default happy reply
    Happy,
}

fn make_bus_error(kind: u8, what: &str) -> Box<dyn std::error::Error + Send + Sync> {
    use std::io::{Error, ErrorKind};
    // the concrete type of a bus's error must not matter to the controller: whatever the bus returns is a bus failure
    match kind % 10 {
        1 => Box::new(Error::new(ErrorKind::Interrupted, what.to_string())),
        2 => Box::new(flipdot_core::FrameError::from(Error::new(ErrorKind::Interrupted, what.to_string()))),
        3 => Box::new(Error::new(ErrorKind::TimedOut, what.to_string())),
        4 => Box::new(Error::new(ErrorKind::WouldBlock, what.to_string())),
        // what a serial bus returns for a garbled reply line: the frame decoder's own errors
        5 => Box::new(flipdot_core::Frame::from_bytes(b":00000000FF").expect_err("bad checksum")),
        6 => Box::new(flipdot_core::Frame::from_bytes(b"\x00garbage").expect_err("not a frame")),
        7 => Box::new(flipdot_core::Frame::from_bytes(b":0200000000FE").expect_err("length mismatch")),
        // a bus that relays another controller: its error is the controller's own error type
        8 => Box::new(SignError::UnexpectedResponse { expected: "relayed".into(), actual: what.to_string() }),
        9 => Box::new(SignError::Bus { source: Box::new(Error::new(ErrorKind::BrokenPipe, what.to_string())) }),
        _ => what.to_string().into(),
    }
}

struct ScriptBus {
    own: u16,
    bus_error_kind: u8,
    choices: Vec<Choice>,
    on_exhausted: OnExhausted,
    transcript: Vec<(M, Reply)>,
    exhausted_at: Option<usize>,
    calls: usize,
    last_transfer_op: Option<u8>,
}

fn happy_reply(own: u16, m: &M, variant: u8, last_transfer_op: Option<u8>, after_count: bool) -> Reply {
    match m {
        M::Req(_, op) => Reply::Msg(M::Ack(own, *op)),
        M::Hello(_) => Reply::Msg(M::Report(own, [S_UNCONFIGURED, S_READY_TO_RESET, S_CONFIG_RECEIVED, S_PAGE_LOADED][variant as usize % 4])),
        M::Query(_) => {
            if after_count {
                let (succ, failed) = if last_transfer_op == Some(O_RECEIVE_CONFIG) {
                    (S_CONFIG_RECEIVED, S_CONFIG_FAILED)
                } else {
                    (S_PIXELS_RECEIVED, S_PIXELS_FAILED)
                };
                Reply::Msg(M::Report(own, if variant % 3 == 1 { failed } else { succ }))
            } else {
                let s = [S_PAGE_LOADED, S_PAGE_SHOWN, S_PAGE_SHOW_IN_PROGRESS, S_PAGE_LOAD_IN_PROGRESS, S_SHOWING_PAGES][variant as usize % 5];
                Reply::Msg(M::Report(own, s))
            }
        }
        _ => Reply::None,
    }
}

impl SignBus for ScriptBus {
    fn process_message<'a>(&mut self, message: Message<'_>) -> Result<Option<Message<'a>>, Box<dyn std::error::Error + Send + Sync>> {
        let m = M::from_message(&message);
        let idx = self.calls;
        self.calls += 1;
        if self.calls > 3_000 {
            self.transcript.push((m, Reply::BusError));
            return Err("harness call cap reached (controller does not terminate)".into());
        }
        let after_count = matches!(self.transcript.last(), Some((M::Count(_), _)));
        if let M::Req(_, o) = &m {
            if *o == O_RECEIVE_CONFIG || *o == O_RECEIVE_PIXELS {
                self.last_transfer_op = Some(*o);
            }
        }
        let reply = match self.choices.get(idx) {
            Some(Choice::Symbol(Reply::Echo)) => Reply::Msg(m.clone()),
            Some(Choice::Symbol(Reply::Disguised)) => match happy_reply(self.own, &m, 0, self.last_transfer_op, after_count) {
                Reply::Msg(h) => {
                    let (addr, ty, data) = h.ref_frame();
                    Reply::Msg(M::Unknown { addr, ty, data })
                }
                // nothing to disguise where no reply is due: an unknown frame (which ends the conversation, so that the
                // script tree does not fork a second time at every silent step)
                _ => Reply::Msg(M::Unknown { addr: self.own, ty: 0x45, data: vec![] }),
            },
            Some(Choice::Symbol(r)) => r.clone(),
            Some(Choice::Happy(v)) => happy_reply(self.own, &m, *v, self.last_transfer_op, after_count),
            None => match self.on_exhausted {
                // default continuation: transfers succeed, page switching ends at once (showing-pages)
                OnExhausted::Happy => happy_reply(self.own, &m, if after_count { 0 } else { 4 }, self.last_transfer_op, after_count),
                OnExhausted::Stop => {
                    if self.exhausted_at.is_none() {
                        self.exhausted_at = Some(idx);
                    }
                    self.transcript.push((m, Reply::BusError));
                    return Err(make_bus_error(self.bus_error_kind, "script exhausted"));
                }
            },
        };
        self.transcript.push((m, reply.clone()));
        match reply {
            Reply::Msg(r) => Ok(Some(r.to_message())),
            Reply::None => Ok(None),
            Reply::BusError => Err(make_bus_error(self.bus_error_kind, "scripted bus error")),
            Reply::Echo | Reply::Disguised => unreachable!("resolved above"),
        }
    }
}

// ---------------------------------------------------------------------------------------

#[derive(Serialize, Deserialize, Debug, Clone, PartialEq, Eq, Hash)]
pub struct ConvCase {
    pub op: OpKind,
    pub addr: u16,
    /// index into oracle::vsign::TYPES
    pub sign_type: u8,
    pub pages: u8,
    pub page_seed: u64,
    pub script: Vec<Choice>,
    /// how a scripted bus error is materialised: 0 plain text error, 1 io::Error(Interrupted), 2 FrameError::Io(Interrupted)
    /// (what the serial bus produces), 3 io::Error(TimedOut), 4 io::Error(WouldBlock)
    #[serde(default)]
    pub bus_error_kind: u8,
}

/// dimensions of page p of the case: the sign's own size, or (a quarter of the cases) the size of another sign type,
/// different from page to page - the controller transfers whatever pages it is given
fn page_dims(c: &ConvCase, p: u8) -> (u32, u32) {
    let t = if c.page_seed % 4 == 3 { (c.sign_type as usize + 1 + 3 * p as usize) % 11 } else { c.sign_type as usize % 11 };
    let (_, _, _, w, h) = TYPES[t];
    (w, h)
}

fn make_pages(c: &ConvCase) -> Vec<Vec<u8>> {
    (0..c.pages)
        .map(|p| {
            let (w, h) = page_dims(c, p);
            (0..total_len(w, h)).map(|i| h64(&(c.page_seed, p, i as u64)) as u8).collect()
        })
        .collect()
}

pub struct Run {
    pub transcript: Vec<(M, Reply)>,
    pub exhausted: bool,
    pub outcome: Option<Outcome>,
    pub calls_after_exhaustion: usize,
}

fn execute(c: &ConvCase, stop_when_exhausted: bool) -> Result<Run, String> {
    Ok(execute_seq(c, &[c.op], stop_when_exhausted)?.remove(0))
}

/// Run several operations one after the other on the SAME `Sign` object and the same scripted bus;
/// one `Run` per operation (its slice of the transcript).
fn execute_seq(c: &ConvCase, ops: &[OpKind], stop_when_exhausted: bool) -> Result<Vec<Run>, String> {
    let (sign_type, _, _, _, _) = TYPES[c.sign_type as usize % 11];
    let bus = Rc::new(RefCell::new(ScriptBus {
        own: c.addr,
        bus_error_kind: c.bus_error_kind,
        choices: c.script.clone(),
        on_exhausted: if stop_when_exhausted { OnExhausted::Stop } else { OnExhausted::Happy },
        transcript: vec![],
        exhausted_at: None,
        calls: 0,
        last_transfer_op: None,
    }));
    let sign = Sign::new(bus.clone(), Address(c.addr), sign_type);
    let page_bytes = make_pages(c);
    let pages: Vec<Page<'_>> = page_bytes
        .iter()
        .enumerate()
        .map(|(p, b)| {
            let (w, h) = page_dims(c, p as u8);
            Page::from_bytes(w, h, &b[..]).expect("page of the padded size")
        })
        .collect();
    let mut runs = vec![];
    for op in ops {
        let start = bus.borrow().transcript.len();
        let result: Result<Outcome, SignError> = catch(|| match op {
            OpKind::Configure => sign.configure().map(|_| Outcome::Ok),
            OpKind::ConfigureIfNeeded => sign.configure_if_needed().map(|_| Outcome::Ok),
            OpKind::SendPages => sign.send_pages(&pages).map(|s| if s == PageFlipStyle::Automatic { Outcome::OkAutomatic } else { Outcome::OkManual }),
            OpKind::ShowLoadedPage => sign.show_loaded_page().map(|_| Outcome::Ok),
            OpKind::LoadNextPage => sign.load_next_page().map(|_| Outcome::Ok),
            OpKind::ShutDown => sign.shut_down().map(|_| Outcome::Ok),
        })
        .map_err(|p| format!("the controller panicked in {op:?}: {p}"))?;
        let b = bus.borrow();
        let outcome = match result {
            Ok(o) => o,
            Err(SignError::Bus { .. }) => Outcome::ErrBus,
            Err(SignError::UnexpectedResponse { .. }) => Outcome::ErrUnexpected,
            Err(_) => Outcome::ErrUnexpected,
        };
        let exhausted = b.exhausted_at.is_some();
        let calls_after = b.exhausted_at.map(|i| b.calls - i - 1).unwrap_or(0);
        runs.push(Run { transcript: b.transcript[start..].to_vec(), exhausted, outcome: if exhausted { None } else { Some(outcome) }, calls_after_exhaustion: calls_after });
        if exhausted {
            break;
        }
    }
    Ok(runs)
}

/// Evaluate one conversation under the chosen oracle.
fn judge(c: &ConvCase, run: &Run, invariants_only: bool) -> Result<(), String> {
    let n = run.transcript.len();
    let show = |k: usize| -> String {
        run.transcript
            .iter()
            .take(k)
            .map(|(m, r)| format!("{} -> {}", m.short(), r.short()))
            .collect::<Vec<_>>()
            .join("; ")
    };
    if run.exhausted && run.calls_after_exhaustion > 0 {
        return Err(format!(
            "the controller kept sending after the bus had failed ({} further messages); conversation: {}",
            run.calls_after_exhaustion,
            show(n)
        ));
    }
    // the replies the controller actually saw (the synthetic failure that marks script exhaustion is not one of them)
    let seen = if run.exhausted { n - 1 } else { n };
    let replies: Vec<Reply> = run.transcript[..seen].iter().map(|(_, r)| r.clone()).collect();
    let emitted: Vec<M> = run.transcript.iter().map(|(m, _)| m.clone()).collect();
    if invariants_only {
        return invariants(c.op, c.addr, &run.transcript[..seen], run.outcome).map_err(|e| format!("{e}; conversation: {}", show(n)));
    }
    let block = BLOCKS[c.sign_type as usize % 11];
    let pages = make_pages(c);
    let task = Task { op: c.op, addr: c.addr, block: &block, pages: &pages };
    let (want_msgs, want_out) = reference(&task, &replies);
    if emitted != want_msgs {
        let k = emitted.iter().zip(want_msgs.iter()).take_while(|(a, b)| a == b).count();
        return Err(format!(
            "message {k} differs: the controller sent {} but the documented protocol prescribes {} after: {}",
            emitted.get(k).map(|m| m.short()).unwrap_or_else(|| "nothing more".into()),
            want_msgs.get(k).map(|m| m.short()).unwrap_or_else(|| "nothing more".into()),
            show(k)
        ));
    }
    if run.outcome != want_out {
        return Err(format!(
            "outcome {:?} but the documented protocol prescribes {:?} after: {}",
            run.outcome,
            want_out,
            show(n)
        ));
    }
    Ok(())
}

fn has_deviation(own: u16, transcript: &[(M, Reply)]) -> bool {
    let mut last_op = None;
    for (i, (m, r)) in transcript.iter().enumerate() {
        if let M::Req(_, o) = m {
            if *o == O_RECEIVE_CONFIG || *o == O_RECEIVE_PIXELS {
                last_op = Some(*o);
            }
        }
        let after_count = i > 0 && matches!(transcript[i - 1].0, M::Count(_));
        let happy: Vec<Reply> = if matches!(m, M::Query(_)) && !after_count {
            (0..5).map(|v| happy_reply(own, m, v, last_op, after_count)).collect()
        } else {
            vec![happy_reply(own, m, 0, last_op, after_count)]
        };
        if !happy.contains(r) {
            return true;
        }
    }
    false
}

pub fn check_conversation(c: &ConvCase, invariants_only: bool, st: &mut Stats) -> Result<(), String> {
    let run = execute(c, false)?;
    st.eval();
    judge(c, &run, invariants_only)?;
    // non-trivial: at least one reply differs from the default happy reply
    let nontrivial = has_deviation(c.addr, &run.transcript);
    if nontrivial {
        st.nontrivial(h64(c));
        st.class("script:with-deviation");
    } else {
        st.class("script:happy-path");
    }
    st.class(&format!("outcome:{:?}", run.outcome.unwrap()));
    st.class(&format!("op:{:?}", c.op));
    if st.want_sample() && nontrivial && run.transcript.len() <= 14 && run.transcript.len() >= 4 {
        st.sample(json!({"op": format!("{:?}", c.op), "addr": c.addr, "type": format!("{:?}", TYPES[c.sign_type as usize % 11].0),
            "conversation": run.transcript.iter().map(|(m, r)| format!("{} -> {}", m.short(), r.short())).collect::<Vec<_>>(), "outcome": format!("{:?}", run.outcome.unwrap())}));
    }
    Ok(())
}

/// Several operations on one `Sign` object: each operation's slice of the conversation is judged on its own
/// (a controller that carried state from one call into the next would diverge in a later slice).
#[derive(Serialize, Deserialize, Debug, Clone, PartialEq, Eq, Hash)]
pub struct SeqCase {
    pub base: ConvCase,
    pub then: Vec<OpKind>,
}

pub fn check_sequence(c: &SeqCase, invariants_only: bool, st: &mut Stats) -> Result<(), String> {
    let mut ops = vec![c.base.op];
    ops.extend(c.then.iter().copied());
    let runs = execute_seq(&c.base, &ops, false)?;
    let mut deviation = false;
    for (i, (op, run)) in ops.iter().zip(runs.iter()).enumerate() {
        st.eval();
        let cc = ConvCase { op: *op, ..c.base.clone() };
        judge(&cc, run, invariants_only).map_err(|e| format!("operation {i} ({op:?}) of a sequence on one Sign object: {e}"))?;
        deviation |= has_deviation(c.base.addr, &run.transcript);
    }
    if deviation && ops.len() >= 2 {
        st.nontrivial(h64(c));
    }
    st.class("sequence-on-one-sign-object");
    Ok(())
}

// ---------------------------------------------------------------------------------------
// systematic re-execution

pub fn alphabet(own: u16, foreign: u16) -> Vec<Reply> {
    let mut v = vec![];
    for a in [own, foreign] {
        for s in 0..13u8 {
            v.push(Reply::Msg(M::Report(a, s)));
        }
        for o in 0..6u8 {
            v.push(Reply::Msg(M::Ack(a, o)));
        }
    }
    v.push(Reply::None);
    v.push(Reply::Msg(M::Goodbye(own)));
    // controller-type messages carrying another address (another controller's traffic is not a reply either)
    v.push(Reply::Msg(M::Query(foreign)));
    v.push(Reply::Msg(M::PixelsComplete(foreign)));
    v.push(Reply::Msg(M::Goodbye(foreign)));
    v.push(Reply::Msg(M::Unknown { addr: own, ty: 0x4, data: vec![0x07, 0x00] }));
    v.push(Reply::BusError);
    v.push(Reply::Echo);
    v.push(Reply::Disguised);
    v
}

struct TreeStats {
    nodes: u64,
    leaves: u64,
    truncated: u64,
    max_depth: usize,
}

fn explore(base: &ConvCase, alpha: &[Reply], depth_cap: usize, invariants_only: bool, st: &mut Stats, ts: &mut TreeStats, script: &mut Vec<Choice>) -> Result<(), (ConvCase, String)> {
    let c = ConvCase { script: script.clone(), ..base.clone() };
    let run = execute(&c, true).map_err(|e| (c.clone(), e))?;
    st.eval();
    ts.nodes += 1;
    ts.max_depth = ts.max_depth.max(script.len());
    judge(&c, &run, invariants_only).map_err(|e| (c.clone(), e))?;
    if !run.exhausted {
        ts.leaves += 1;
        if has_deviation(c.addr, &run.transcript) {
            st.nontrivial_enumerated(1);
        }
        let o = run.outcome.unwrap();
        st.class(match o {
            Outcome::Ok => "leaf:Ok",
            Outcome::OkAutomatic => "leaf:OkAutomatic",
            Outcome::OkManual => "leaf:OkManual",
            Outcome::ErrUnexpected => "leaf:ErrUnexpected",
            Outcome::ErrBus => "leaf:ErrBus",
        });
        if st.want_sample() && script.len() >= 5 && o != Outcome::ErrBus {
            st.sample(json!({"op": format!("{:?}", c.op), "addr": c.addr, "script": run.transcript.iter().map(|(m, r)| format!("{} -> {}", m.short(), r.short())).collect::<Vec<_>>(), "outcome": format!("{o:?}")}));
        }
        return Ok(());
    }
    if script.len() >= depth_cap {
        ts.truncated += 1;
        return Ok(());
    }
    for sym in alpha {
        script.push(Choice::Symbol(sym.clone()));
        explore(base, alpha, depth_cap, invariants_only, st, ts, script)?;
        script.pop();
    }
    Ok(())
}

fn run_tree(ctx: &Ctx, invariants_only: bool) {
    let thorough = ctx.tier == crate::engine::Tier::Thorough;
    // (operation, sign type index, pages, depth cap)
    let mut jobs: Vec<(OpKind, u8, u8, usize, u16, u16)> = vec![];
    let addr_pairs: Vec<(u16, u16)> = if thorough {
        vec![(3, 2), (0, 1), (0x7F, 0x17F), (0x1234, 0x1235), (0xFFFF, 0xFFFE), (0x0100, 0x0001), (5, 0)]
    } else {
        vec![(3, 2), (0xFFFF, 0xFEFF), (0x1234, 0), (0, 1), (0x7F, 0x17F)]
    };
    let switch_depth = if thorough { 9 } else { 7 };
    for &(own, foreign) in &addr_pairs {
        for t in if thorough { (0..11).collect::<Vec<u8>>() } else { vec![5u8, 10] } {
            jobs.push((OpKind::Configure, t, 0, 64, own, foreign));
        }
        jobs.push((OpKind::ConfigureIfNeeded, 5, 0, 64, own, foreign));
        // 30x7 (48-byte page, 3 chunks) and 23x10 (64 bytes, 4 chunks)
        jobs.push((OpKind::SendPages, 5, 0, 64, own, foreign));
        jobs.push((OpKind::SendPages, 5, 1, 64, own, foreign));
        jobs.push((OpKind::SendPages, 4, 1, 64, own, foreign));
        if thorough {
            jobs.push((OpKind::SendPages, 5, 2, 64, own, foreign));
        }
        jobs.push((OpKind::ShowLoadedPage, 5, 0, switch_depth, own, foreign));
        jobs.push((OpKind::LoadNextPage, 5, 0, switch_depth, own, foreign));
        jobs.push((OpKind::ShutDown, 5, 0, 64, own, foreign));
    }
    // split each job by its first reply symbol so that the work spreads over the workers
    let mut units: Vec<(usize, usize)> = vec![];
    for (j, _) in jobs.iter().enumerate() {
        for s in 0..alphabet(0, 1).len() {
            units.push((j, s));
        }
    }
    let totals = std::sync::Mutex::new((0u64, 0u64, 0u64, 0usize));
    par_range(ctx, "reply-script-tree", units.len() as u64, |u, st| {
        let (j, s) = units[u as usize];
        let (op, t, pages, cap, own, foreign) = jobs[j];
        let alpha = alphabet(own, foreign);
        let base = ConvCase { op, addr: own, sign_type: t, pages, page_seed: 7 + j as u64, script: vec![], bus_error_kind: (j % 10) as u8 };
        let mut ts = TreeStats { nodes: 0, leaves: 0, truncated: 0, max_depth: 0 };
        let mut script = vec![Choice::Symbol(alpha[s].clone())];
        if s == 0 {
            // the root node (empty script) belongs to the first unit
            let c0 = ConvCase { script: vec![], ..base.clone() };
            let run = execute(&c0, true).map_err(|e| (serde_json::to_value(&c0).unwrap(), e))?;
            judge(&c0, &run, invariants_only).map_err(|e| (serde_json::to_value(&c0).unwrap(), e))?;
        }
        explore(&base, &alpha, cap, invariants_only, st, &mut ts, &mut script).map_err(|(c, e)| (serde_json::to_value(&c).unwrap(), e))?;
        let mut g = totals.lock().unwrap();
        g.0 += ts.nodes;
        g.1 += ts.leaves;
        g.2 += ts.truncated;
        g.3 = g.3.max(ts.max_depth);
        Ok(())
    });
    let g = totals.lock().unwrap();
    ctx.part_done(
        "reply-script-tree",
        g.2 == 0,
        json!({"jobs": jobs.len(), "alphabet": alphabet(0, 1).len(), "nodes": g.0, "complete_conversations": g.1, "truncated_at_depth_cap": g.2, "max_script_length": g.3,
               "page_switch_depth_cap": switch_depth, "address_pairs": addr_pairs}),
    );
}

// ---------------------------------------------------------------------------------------
// random scripts

fn choice_strategy(own: u16) -> impl Strategy<Value = Choice> {
    let foreign = proptest::sample::select(vec![own.wrapping_add(1), own.wrapping_sub(1), own ^ 0x0100, 0u16, own.swap_bytes() ^ 1]);
    let foreign2 = foreign.clone();
    prop_oneof![
        14 => (0u8..6).prop_map(Choice::Happy),
        1 => (0u8..13).prop_map(move |s| Choice::Symbol(Reply::Msg(M::Report(own, s)))),
        1 => (foreign.clone(), 0u8..13).prop_map(|(a, s)| Choice::Symbol(Reply::Msg(M::Report(a, s)))),
        1 => (0u8..6).prop_map(move |o| Choice::Symbol(Reply::Msg(M::Ack(own, o)))),
        1 => (foreign, 0u8..6).prop_map(|(a, o)| Choice::Symbol(Reply::Msg(M::Ack(a, o)))),
        1 => Just(Choice::Symbol(Reply::None)),
        1 => Just(Choice::Symbol(Reply::BusError)),
        1 => Just(Choice::Symbol(Reply::Echo)),
        1 => Just(Choice::Symbol(Reply::Disguised)),
        1 => (foreign2, 0u8..5, 0u8..6).prop_map(|(a, k, o)| Choice::Symbol(Reply::Msg(match k {
            0 => M::Hello(a),
            1 => M::Query(a),
            2 => M::Req(a, o),
            3 => M::PixelsComplete(a),
            _ => M::Goodbye(a),
        }))),
    ]
}

fn conv_strategy() -> impl Strategy<Value = ConvCase> {
    (
        proptest::sample::select(vec![OpKind::Configure, OpKind::ConfigureIfNeeded, OpKind::SendPages, OpKind::SendPages, OpKind::ShowLoadedPage, OpKind::LoadNextPage, OpKind::ShutDown]),
        prop_oneof![3 => proptest::sample::select(vec![0u16, 3, 0x7F, 0x1234, 0xFFFF]), 2 => any::<u16>()],
        0u8..11,
        0u8..=3,
        any::<u64>(),
        0u8..10,
    )
        .prop_flat_map(|(op, addr, sign_type, pages, page_seed, kind)| {
            (Just((op, addr, sign_type, pages, page_seed, kind)), proptest::collection::vec(choice_strategy(addr), 0..120))
        })
        .prop_map(|((op, addr, sign_type, pages, page_seed, bus_error_kind), script)| ConvCase { op, addr, sign_type, pages, page_seed, script, bus_error_kind })
}

/// A page switch on a bus whose every exchange takes real time (a slow line, a sign that takes seconds to flip): the
/// controller keeps polling for as long as the sign reports 'in progress', however long that takes on the clock.
#[derive(Serialize, Deserialize, Debug, Clone, PartialEq, Eq, Hash)]
pub struct SlowCase {
    pub op: OpKind,
    pub addr: u16,
    /// number of in-progress reports before the final state
    pub polls: u32,
    /// real time each bus exchange takes, in milliseconds
    pub delay_ms: u64,
}

pub fn check_slow(c: &SlowCase) -> Result<(), String> {
    struct SlowBus {
        replies: std::collections::VecDeque<Reply>,
        delay: std::time::Duration,
        sent: Vec<M>,
    }
    impl SignBus for SlowBus {
        fn process_message<'a>(&mut self, message: Message<'_>) -> Result<Option<Message<'a>>, Box<dyn std::error::Error + Send + Sync>> {
            self.sent.push(M::from_message(&message));
            std::thread::sleep(self.delay);
            match self.replies.pop_front() {
                Some(Reply::Msg(m)) => Ok(Some(m.to_message())),
                Some(Reply::None) => Ok(None),
                _ => Err("script exhausted".into()),
            }
        }
    }
    let (trigger, req, busy, done) = match c.op {
        OpKind::ShowLoadedPage => (S_PAGE_LOADED, O_SHOW_LOADED_PAGE, S_PAGE_SHOW_IN_PROGRESS, S_PAGE_SHOWN),
        _ => (S_PAGE_SHOWN, O_LOAD_NEXT_PAGE, S_PAGE_LOAD_IN_PROGRESS, S_PAGE_LOADED),
    };
    // the opening query finds the sign in the state the operation starts from; the request is acknowledged
    let mut replies: Vec<Reply> = vec![Reply::Msg(M::Report(c.addr, trigger)), Reply::Msg(M::Ack(c.addr, req))];
    for _ in 0..c.polls {
        replies.push(Reply::Msg(M::Report(c.addr, busy)));
    }
    replies.push(Reply::Msg(M::Report(c.addr, done)));
    let block = BLOCKS[5];
    let task = Task { op: c.op, addr: c.addr, block: &block, pages: &[] };
    let (want_msgs, want_out) = reference(&task, &replies);
    if want_out != Some(Outcome::Ok) || want_msgs.len() != replies.len() {
        return Err(format!("harness: the slow-bus script does not describe a successful page switch ({want_out:?}, {} messages for {} replies)", want_msgs.len(), replies.len()));
    }
    let bus = Rc::new(RefCell::new(SlowBus { replies: replies.iter().cloned().collect(), delay: std::time::Duration::from_millis(c.delay_ms), sent: vec![] }));
    let sign = Sign::new(bus.clone(), Address(c.addr), TYPES[5].0);
    let started = std::time::Instant::now();
    let result = catch(|| match c.op {
        OpKind::ShowLoadedPage => sign.show_loaded_page().map(|_| Outcome::Ok),
        _ => sign.load_next_page().map(|_| Outcome::Ok),
    })
    .map_err(|p| format!("the controller panicked: {p}"))?;
    let took = started.elapsed();
    let outcome = match result {
        Ok(o) => o,
        Err(SignError::Bus { .. }) => Outcome::ErrBus,
        Err(_) => Outcome::ErrUnexpected,
    };
    let sent = bus.borrow().sent.clone();
    if sent != want_msgs || Some(outcome) != want_out {
        return Err(format!(
            "on a bus whose exchanges take {} ms each ({} in-progress reports, {:.1} s in all) the controller sent {} messages and ended {:?}; the documented protocol prescribes {} messages and {:?}",
            c.delay_ms,
            c.polls,
            took.as_secs_f64(),
            sent.len(),
            outcome,
            want_msgs.len(),
            want_out
        ));
    }
    Ok(())
}

pub fn run(ctx: &Ctx, invariants_only: bool) {
    // (runs beside everything else: it sleeps, it does not compute)
    let slow_cases: Vec<SlowCase> = if invariants_only {
        vec![]
    } else if ctx.tier == crate::engine::Tier::Thorough {
        vec![
            SlowCase { op: OpKind::ShowLoadedPage, addr: 3, polls: 7, delay_ms: 900 },
            SlowCase { op: OpKind::LoadNextPage, addr: 0xFFFF, polls: 3, delay_ms: 4_000 },
            SlowCase { op: OpKind::ShowLoadedPage, addr: 0x0100, polls: 120, delay_ms: 250 },
            SlowCase { op: OpKind::LoadNextPage, addr: 7, polls: 1, delay_ms: 31_000 },
        ]
    } else {
        vec![SlowCase { op: OpKind::ShowLoadedPage, addr: 3, polls: 5, delay_ms: 900 }, SlowCase { op: OpKind::LoadNextPage, addr: 0xFFFF, polls: 1, delay_ms: 2_000 }]
    };
    let slow_enabled = ctx.part_enabled("slow-bus-page-switch");
    let slow_handles: Vec<_> = slow_cases
        .iter()
        .cloned()
        .filter(|_| slow_enabled)
        .map(|c| std::thread::spawn(move || (c.clone(), check_slow(&c))))
        .collect();

    run_tree(ctx, invariants_only);
    run_generated(ctx, "random-scripts", ctx.tier.pick(400_000, 4_000_000), conv_strategy, |c, st| check_conversation(c, invariants_only, st));
    run_generated(
        ctx,
        "sequences",
        ctx.tier.pick(250_000, 2_000_000),
        || {
            (
                conv_strategy(),
                proptest::collection::vec(
                    proptest::sample::select(vec![OpKind::Configure, OpKind::ConfigureIfNeeded, OpKind::SendPages, OpKind::SendPages, OpKind::ShowLoadedPage, OpKind::LoadNextPage, OpKind::ShutDown]),
                    1..=4,
                ),
            )
                .prop_map(|(base, then)| SeqCase { base, then })
        },
        |c, st| check_sequence(c, invariants_only, st),
    );
    run_logged(ctx, invariants_only);

    // collect the slow-bus cases started at the top
    if !slow_handles.is_empty() {
        let mut st = Stats::new();
        for h in slow_handles {
            match h.join() {
                Ok((c, r)) => {
                    st.eval();
                    st.nontrivial(h64(&c));
                    st.class("slow-bus:page-switch-polling");
                    if let Err(m) = r {
                        ctx.fail("slow-bus-page-switch", serde_json::to_value(&c).unwrap(), m);
                    }
                }
                Err(_) => ctx.inconclusive("a slow-bus worker thread died".into()),
            }
        }
        ctx.merge("slow-bus-page-switch", st);
        ctx.part_done("slow-bus-page-switch", true, json!({"cases": slow_cases, "what": "page-switch polling on a bus whose exchanges take 0.25-31 s of real time each; the controller must keep polling while the sign reports 'in progress'"}));
    }
}

pub fn run_logged(ctx: &Ctx, invariants_only: bool) {
    crate::engine::with_logging(|| {
        run_generated(ctx, "random-scripts+logging", ctx.tier.pick(15_000, 300_000), conv_strategy, |c, st| check_conversation(c, invariants_only, st));
    });
}

pub fn replay(part: &str, case: &Value, invariants_only: bool) -> Result<(), String> {
    if part == "slow-bus-page-switch" {
        let c: SlowCase = serde_json::from_value(case.clone()).map_err(|e| format!("bad case: {e}"))?;
        return check_slow(&c);
    }
    if part == "sequences" {
        let c: SeqCase = serde_json::from_value(case.clone()).map_err(|e| format!("bad case: {e}"))?;
        return check_sequence(&c, invariants_only, &mut Stats::new());
    }
    let c: ConvCase = serde_json::from_value(case.clone()).map_err(|e| format!("bad case: {e}"))?;
    if part == "random-scripts+logging" {
        return crate::engine::with_logging(|| check_conversation(&c, invariants_only, &mut Stats::new()));
    }
    if part == "reply-script-tree" {
        // node of the systematic tree: exhaustion stops the conversation
        let run = execute(&c, true)?;
        return judge(&c, &run, invariants_only);
    }
    check_conversation(&c, invariants_only, &mut Stats::new())
}

//! C07 — page byte layout for every size.

use flipdot_core::{Page, PageId};
use proptest::prelude::*;
use serde::{Deserialize, Serialize};
use serde_json::{json, Value};

use crate::engine::{catch, h64, par_range, run_generated, Ctx, Stats};
use crate::oracle::page::{bit_pos, bpc, data_len, new_bytes, total_len, REAL_SIZES};

pub const RULE: &str = "sizes: every width x height in 0..=32 x 0..=34 (quick) / 0..=64 x 0..=48 (thorough), the 11 real sizes, 1x255, 255x1, 300x9, 1000x64 pages taller than 256 rows (2x257, 3x300, 1x1030) and dimensions within 10 of u32::MAX (against small buffers only); for each size: new-page bytes for several ids (all 256 ids on selected sizes) against the closed-form layout, every pixel set alone on a blank page must flip exactly bit y%8 of byte 4+x*ceil(h/8)+y/8 (bijection pixels<->bits), from_bytes with candidate lengths {0, total-16, total-1, total, total+1, total+16, unpadded} must succeed exactly for the padded length, expose exactly the given bytes and equal the page that produced them (also after generated histories of pixel edits, whole-page fills and rejected out-of-bounds writes on pages that came from new, from borrowed and from owned bytes). Non-trivial = height not a multiple of 8, or data already on a 16-byte boundary, or >= 2 bytes per column; distinct by size (and content hash for generated cases)";
pub const ASSUMPTIONS: &[&str] = &["the closed-form layout in oracle/page.rs is a correct reading of the C07 statement"];

#[derive(Serialize, Deserialize, Debug, Clone, PartialEq, Eq, Hash)]
pub struct SizeCase {
    pub w: u32,
    pub h: u32,
    pub id: u8,
}

fn nontrivial_size(w: u32, h: u32) -> bool {
    h % 8 != 0 || data_len(w, h) % 16 == 0 || bpc(h) >= 2
}

/// new page bytes + per-pixel bit position (bijection) for one size
pub fn check_size(c: &SizeCase, st: &mut Stats) -> Result<(), String> {
    let (w, h) = (c.w, c.h);
    let want = new_bytes(c.id, w, h);
    // a page of another size with the same padded length (and one with another padded length) created on this
    // thread just before must not influence this one
    let same_total = [(w + 1, h), (w.saturating_sub(1), h), (w, h + 8), (w + 2, h), (w, h.saturating_sub(8))]
        .into_iter()
        .find(|&(a, b)| total_len(a, b) == total_len(w, h) && data_len(a, b) != data_len(w, h));
    if let Some((a, b)) = same_total {
        let mut sib = catch(|| Page::new(PageId(c.id.wrapping_add(1)), a, b)).map_err(|p| format!("Page::new({a},{b}) panicked: {p}"))?;
        sib.set_all_pixels(true);
        st.class("new-page-after-a-sibling-size-with-the-same-padded-length");
    }
    let page = catch(|| Page::new(PageId(c.id), w, h)).map_err(|p| format!("Page::new({},{w},{h}) panicked: {p}", c.id))?;
    st.eval();
    if page.as_bytes() != &want[..] {
        return Err(format!(
            "Page::new({}, {w}, {h}) has {} bytes {:?}..., the layout prescribes {} bytes {:?}...",
            c.id,
            page.as_bytes().len(),
            &page.as_bytes()[..page.as_bytes().len().min(24)],
            want.len(),
            &want[..want.len().min(24)]
        ));
    }
    if page.id() != PageId(c.id) || page.width() != w || page.height() != h {
        return Err(format!("accessors of Page::new({}, {w}, {h}) disagree with the inputs", c.id));
    }
    // every pixel alone
    let mut seen_bits = std::collections::HashSet::new();
    for x in 0..w {
        for y in 0..h {
            let mut p = page.clone();
            catch(|| p.set_pixel(x, y, true)).map_err(|e| format!("set_pixel({x},{y}) on {w}x{h} panicked: {e}"))?;
            st.eval();
            let got = p.as_bytes();
            let (bi, bit) = bit_pos(x, y, h);
            if got.len() != want.len() {
                return Err(format!("set_pixel({x},{y}) changed the length of a {w}x{h} page"));
            }
            let mut diffs: Vec<(usize, u8)> = vec![];
            for k in 0..want.len() {
                if got[k] != want[k] {
                    diffs.push((k, got[k] ^ want[k]));
                }
            }
            if diffs != vec![(bi, 1u8 << bit)] {
                return Err(format!(
                    "on a blank {w}x{h} page set_pixel({x},{y}) changed (byte, xor-mask) {diffs:?}; the layout puts the pixel at byte {bi} bit {bit}"
                ));
            }
            if !seen_bits.insert((bi, bit)) {
                return Err(format!("two pixels of a {w}x{h} page share byte {bi} bit {bit}"));
            }
        }
    }
    // from_bytes over candidate lengths
    let total = total_len(w, h);
    let mut lens = vec![0usize, total.saturating_sub(16), total - 1, total, total + 1, total + 16, data_len(w, h), 4];
    lens.sort();
    lens.dedup();
    for len in lens {
        let buf: Vec<u8> = (0..len).map(|i| h64(&(w, h, i as u64)) as u8).collect();
        for owned in [true, false] {
            let r = if owned {
                catch(|| Page::from_bytes(w, h, buf.clone()).map(|p| (p.as_bytes().to_vec(), p.width(), p.height(), p.id())))
            } else {
                catch(|| Page::from_bytes(w, h, &buf[..]).map(|p| (p.as_bytes().to_vec(), p.width(), p.height(), p.id())))
            }
            .map_err(|p| format!("from_bytes({w},{h},{len} bytes) panicked: {p}"))?;
            st.eval();
            match (len == total, r) {
                (true, Ok((bytes, pw, ph, id))) => {
                    if bytes != buf {
                        return Err(format!("from_bytes({w},{h}) does not expose exactly the bytes given"));
                    }
                    if pw != w || ph != h || id != PageId(buf[0]) {
                        return Err(format!("from_bytes({w},{h}) reports other dimensions or id"));
                    }
                }
                (true, Err(e)) => return Err(format!("from_bytes({w},{h}) rejected the padded length {len}: {e}")),
                (false, Ok(_)) => {
                    return Err(format!(
                        "from_bytes({w},{h}) accepted {len} bytes although the padded size is {total}"
                    ))
                }
                (false, Err(_)) => {}
            }
        }
    }
    // a page whose pixels were switched on and off again has the bytes of a blank page and must equal both the
    // page rebuilt from those bytes and a new page (equality is about the bytes, not about the page's past)
    if w > 0 && h > 0 {
        let mut p = page.clone();
        for (x, y) in [(0u32, 0u32), (w - 1, h - 1), (w / 2, h / 2)] {
            p.set_pixel(x, y, true);
            p.set_pixel(x, y, false);
        }
        let again = catch(|| Page::from_bytes(w, h, p.as_bytes().to_vec()))
            .map_err(|e| format!("from_bytes panicked: {e}"))?
            .map_err(|e| format!("from_bytes rejects a page's own bytes: {e}"))?;
        st.eval();
        if again != p || p != page || again.as_bytes() != page.as_bytes() {
            return Err(format!("a {w}x{h} page with pixels switched on and off again does not equal the page built from its bytes / a new page"));
        }
        let mut q = page.clone();
        q.set_all_pixels(true);
        q.set_all_pixels(false);
        if q != page {
            return Err(format!("a {w}x{h} page after set_all_pixels(true) and (false) does not equal a new page"));
        }
    }
    // a page equals the page rebuilt from its bytes
    let rebuilt = catch(|| Page::from_bytes(w, h, page.as_bytes().to_vec()))
        .map_err(|p| format!("from_bytes panicked on a page's own bytes: {p}"))?
        .map_err(|e| format!("from_bytes rejects the bytes of Page::new({w},{h}): {e}"))?;
    if rebuilt != page {
        return Err(format!("from_bytes({w},{h}, p.as_bytes()) != p for a new page"));
    }
    if crate::engine::h64(&rebuilt) != crate::engine::h64(&page) {
        return Err(format!("a {w}x{h} page and the page rebuilt from its bytes are equal but hash differently"));
    }
    // copies: clone() and clone_from() into destinations that held a longer page, a shorter page, a same-size page and
    // a borrowed page before - the copy has the source's bytes (header, data, padding, length) whatever was there
    {
        let mut src = page.clone();
        if w > 0 && h > 0 {
            src.set_pixel(w - 1, h - 1, true);
            src.set_pixel(w / 2, 0, true);
        }
        let src_bytes = src.as_bytes().to_vec();
        let long_buf: Vec<u8> = (0..total_len(w + 5, h + 9)).map(|i| 0x80 | i as u8).collect();
        let dests: Vec<(&str, Page<'_>)> = vec![
            ("a longer owned page", { let mut d = Page::new(PageId(0xEE), w + 30, h + 8); d.set_all_pixels(true); d }),
            ("a shorter owned page", Page::new(PageId(0xED), w / 2, h / 2)),
            ("an empty owned page", Page::new(PageId(0xEC), 0, 0)),
            ("a same-size owned page", { let mut d = Page::new(PageId(0xEB), w, h); d.set_all_pixels(true); d }),
            ("a borrowed longer page", Page::from_bytes(w + 5, h + 9, &long_buf[..]).map_err(|e| format!("from_bytes rejected the padded length: {e}"))?),
        ];
        for (what, mut dest) in dests {
            catch(|| dest.clone_from(&src)).map_err(|p| format!("clone_from into {what} panicked: {p}"))?;
            st.eval();
            if dest.as_bytes() != &src_bytes[..] || dest.width() != w || dest.height() != h || dest.id() != src.id() {
                return Err(format!(
                    "clone_from of a {w}x{h} page into {what}: the copy has {} bytes (dimensions {}x{}), the source {} bytes",
                    dest.as_bytes().len(),
                    dest.width(),
                    dest.height(),
                    src_bytes.len()
                ));
            }
            if dest != src {
                return Err(format!("clone_from of a {w}x{h} page into {what}: the copy does not equal its source"));
            }
            match catch(|| Page::from_bytes(w, h, dest.as_bytes().to_vec())).map_err(|p| format!("from_bytes panicked: {p}"))? {
                Ok(again) if again == src => {}
                Ok(_) => return Err(format!("clone_from into {what}: the page rebuilt from the copy's bytes differs from the source")),
                Err(e) => return Err(format!("clone_from into {what}: from_bytes rejects the copy's bytes: {e}")),
            }
            // the copy is independent of its source
            if w > 0 && h > 0 {
                dest.set_pixel(0, h - 1, true);
                dest.set_pixel(w - 1, h - 1, false);
                if src.as_bytes() != &src_bytes[..] {
                    return Err(format!("editing a copy made by clone_from into {what} changed the source page"));
                }
            }
        }
        let mut list: Vec<Page<'_>> = vec![Page::new(PageId(1), w + 30, h + 8), Page::new(PageId(2), 1, 1)];
        let from = vec![src.clone(), src.clone(), page.clone()];
        list.clone_from(&from);
        if list != from || list.iter().zip(&from).any(|(a, b)| a.as_bytes() != b.as_bytes()) {
            return Err(format!("Vec<Page>::clone_from of {w}x{h} pages does not reproduce the pages"));
        }
        let cl = src.clone();
        if cl != src || cl.as_bytes() != &src_bytes[..] {
            return Err(format!("clone() of a {w}x{h} page differs from its source"));
        }
    }
    if nontrivial_size(w, h) {
        st.class("nontrivial-size");
    }
    if st.want_sample() && nontrivial_size(w, h) && w > 2 {
        st.sample(json!({"w": w, "h": h, "id": c.id, "bytes_per_column": bpc(h), "data_bytes": data_len(w, h), "total_bytes": total, "pixels_checked": w * h}));
    }
    Ok(())
}

#[derive(Serialize, Deserialize, Debug, Clone, PartialEq, Eq, Hash)]
pub struct EditedCase {
    pub w: u32,
    pub h: u32,
    pub seed: u64,
    /// pixels to set, as selectors mapped into the page
    pub sets: Vec<(u16, u16, bool)>,
    /// whole-page fills: (position in the edit sequence as a selector, value)
    #[serde(default)]
    pub fills: Vec<(u16, bool)>,
    /// 0 = from_bytes over borrowed generated bytes, 1 = Page::new, 2 = from_bytes over an owned vector
    #[serde(default)]
    pub origin: u8,
    /// rejected writes: positions in the edit sequence (selectors) at which an out-of-bounds set_pixel is made and its
    /// panic caught; the page is used on afterwards
    #[serde(default)]
    pub probes: Vec<u16>,
}

/// An out-of-bounds write panics (C06); whatever page is left behind is still a page, so its bytes must still be the
/// layout the history has built (C07 speaks about every page, however it was reached).
fn probe_step(page: &mut Page, model: &[u8], w: u32, h: u32, k: usize, st: &mut Stats) -> Result<(), String> {
    let (x, y) = if k % 2 == 0 { (w, 0) } else { (0, h) };
    let _ = catch(|| page.set_pixel(x, y, k % 3 == 0));
    st.eval();
    if page.as_bytes() != model {
        return Err(format!(
            "after a rejected (out-of-bounds, panicking) set_pixel({x},{y}) the {w}x{h} page's bytes are no longer the layout its history built: {} bytes instead of {}",
            page.as_bytes().len(),
            model.len()
        ));
    }
    Ok(())
}

/// set_all_pixels as one edit of the generated history: header and padding stay, every real pixel bit takes the
/// value; what the unused bits of a column's last byte hold is left to the implementation (no statement fixes it)
fn fill_step(page: &mut Page, model: &mut Vec<u8>, w: u32, h: u32, v: bool, st: &mut Stats) -> Result<(), String> {
    catch(|| page.set_all_pixels(v)).map_err(|p| format!("set_all_pixels({v}) panicked: {p}"))?;
    st.eval();
    let got = page.as_bytes();
    let d = data_len(w, h);
    if got.len() != model.len() || got[..4] != model[..4] || got[d..] != model[d..] {
        return Err(format!("set_all_pixels({v}) on a {w}x{h} page changed the header, the padding or the length"));
    }
    for i in 4..d {
        let m = crate::oracle::page::pixel_mask(i, h);
        if got[i] & m != if v { m } else { 0 } {
            return Err(format!("after set_all_pixels({v}) on a {w}x{h} page byte {i} is {:#04x} (pixel bits {m:#04x})", got[i]));
        }
    }
    *model = got.to_vec();
    Ok(())
}

/// generated content: bytes -> page -> edits -> bytes -> page; layout of every touched pixel
pub fn check_edited(c: &EditedCase, st: &mut Stats) -> Result<(), String> {
    let (w, h) = (c.w, c.h);
    let total = total_len(w, h);
    let buf: Vec<u8> = if c.origin % 3 == 1 {
        new_bytes(c.seed as u8, w, h)
    } else {
        (0..total).map(|i| h64(&(c.seed, i as u64)) as u8).collect()
    };
    let mut page = match c.origin % 3 {
        1 => catch(|| Page::new(PageId(c.seed as u8), w, h)).map_err(|p| format!("Page::new panicked: {p}"))?,
        2 => catch(|| Page::from_bytes(w, h, buf.clone()))
            .map_err(|p| format!("from_bytes panicked: {p}"))?
            .map_err(|e| format!("from_bytes({w},{h}) rejected {total} owned bytes: {e}"))?,
        _ => catch(|| Page::from_bytes(w, h, &buf[..]))
            .map_err(|p| format!("from_bytes panicked: {p}"))?
            .map_err(|e| format!("from_bytes({w},{h}) rejected {total} bytes: {e}"))?,
    };
    st.eval();
    if page.as_bytes() != &buf[..] {
        return Err("from_bytes does not expose exactly the bytes given".into());
    }
    let mut model = buf.clone();
    let fill_at = |k: usize| c.fills.iter().filter(move |f| crate::engine::pick_idx(f.0, c.sets.len() + 1) == k).map(|f| f.1);
    if w == 0 || h == 0 {
        for v in c.fills.iter().map(|f| f.1) {
            fill_step(&mut page, &mut model, w, h, v, st)?;
        }
    }
    if w > 0 && h > 0 {
        for (k, &(sx, sy, v)) in c.sets.iter().enumerate() {
            for fv in fill_at(k) {
                fill_step(&mut page, &mut model, w, h, fv, st)?;
            }
            if c.probes.iter().any(|p| crate::engine::pick_idx(*p, c.sets.len() + 1) == k) {
                probe_step(&mut page, &model, w, h, k, st)?;
            }
            let x = crate::engine::pick_idx(sx, w as usize) as u32;
            let y = crate::engine::pick_idx(sy, h as usize) as u32;
            let (bi, bit) = bit_pos(x, y, h);
            // the pixel must read what the layout says is stored there
            let got = catch(|| page.get_pixel(x, y)).map_err(|p| format!("get_pixel({x},{y}) panicked: {p}"))?;
            if got != (model[bi] & (1 << bit) != 0) {
                return Err(format!("get_pixel({x},{y}) on {w}x{h} = {got}, but byte {bi} bit {bit} of the page bytes says otherwise"));
            }
            catch(|| page.set_pixel(x, y, v)).map_err(|p| format!("set_pixel({x},{y}) panicked: {p}"))?;
            if v {
                model[bi] |= 1 << bit;
            } else {
                model[bi] &= !(1 << bit);
            }
            st.eval();
            if page.as_bytes() != &model[..] {
                return Err(format!(
                    "after set_pixel({x},{y},{v}) on a {w}x{h} page the bytes differ from the layout's prediction (byte {bi} bit {bit})"
                ));
            }
        }
    }
    if w > 0 && h > 0 {
        for fv in fill_at(c.sets.len()) {
            fill_step(&mut page, &mut model, w, h, fv, st)?;
        }
    }
    if c.probes.iter().any(|p| crate::engine::pick_idx(*p, c.sets.len() + 1) == c.sets.len()) {
        probe_step(&mut page, &model, w, h, c.sets.len(), st)?;
    }
    let rebuilt = catch(|| Page::from_bytes(w, h, page.as_bytes().to_vec()))
        .map_err(|p| format!("from_bytes panicked on a page's own bytes: {p}"))?
        .map_err(|e| format!("from_bytes rejects a page's own bytes: {e}"))?;
    if rebuilt != page || page != rebuilt || rebuilt.as_bytes() != page.as_bytes() {
        return Err(format!(
            "from_bytes({w},{h}, p.as_bytes()) != p after {} pixel edits and {} whole-page fills (origin {})",
            c.sets.len(),
            c.fills.len(),
            c.origin % 3
        ));
    }
    // the same through a borrowed view of the page's bytes, and for a clone of the page
    let bytes_now = page.as_bytes().to_vec();
    let borrowed = Page::from_bytes(w, h, &bytes_now[..]).map_err(|e| format!("from_bytes rejects a page's own bytes (borrowed): {e}"))?;
    if borrowed != page || page.clone() != borrowed {
        return Err(format!("from_bytes({w},{h}, &p.as_bytes()) != p after {} pixel edits and {} whole-page fills", c.sets.len(), c.fills.len()));
    }
    if nontrivial_size(w, h) {
        st.nontrivial(h64(c));
    }
    Ok(())
}

/// Extreme dimensions: nothing may overflow. A zero-width page of any height is 16 bytes; a page whose padded size
/// is astronomically large must simply be rejected when given a small buffer.
pub fn check_extreme(w: u32, h: u32, st: &mut Stats) -> Result<(), String> {
    let total = total_len(w, h);
    if w == 0 || h == 0 {
        let want = new_bytes(0x5A, w, h);
        let p = catch(|| Page::new(PageId(0x5A), w, h)).map_err(|e| format!("Page::new(_, {w}, {h}) panicked: {e}"))?;
        st.eval();
        if p.as_bytes() != &want[..] || p.width() != w || p.height() != h {
            return Err(format!("Page::new(_, {w}, {h}) is not the 16-byte page the layout prescribes"));
        }
    }
    for len in [0usize, 4, 15, 16, 17, 32, 4096] {
        let buf = vec![0xA5u8; len];
        let r = catch(|| Page::from_bytes(w, h, &buf[..]).map(|p| p.as_bytes().to_vec())).map_err(|e| format!("from_bytes({w}, {h}, {len} bytes) panicked: {e}"))?;
        st.eval();
        match (len == total, r) {
            (true, Ok(b)) if b == buf => {}
            (true, Ok(_)) => return Err(format!("from_bytes({w}, {h}) does not expose the bytes given")),
            (true, Err(e)) => return Err(format!("from_bytes({w}, {h}) rejected the padded length {len}: {e}")),
            (false, Ok(_)) => return Err(format!("from_bytes({w}, {h}) accepted {len} bytes although the padded size is {total}")),
            (false, Err(_)) => {}
        }
    }
    Ok(())
}

/// Pages of megabytes (more than 2^16 chunks, heights beyond 2^24): too large for the per-pixel oracles, so only the
/// layout is probed - length, header, blank data, padding, and a handful of pixels whose bit must be exactly the one
/// the closed form names (first/last row and column, rows around every power of two and around h-1).
pub fn check_giant(w: u32, h: u32, st: &mut Stats) -> Result<(), String> {
    let total = total_len(w, h);
    let mut page = catch(|| Page::new(PageId(0x3C), w, h)).map_err(|e| format!("Page::new(_, {w}, {h}) panicked: {e}"))?;
    st.eval();
    if page.as_bytes().len() != total || page.width() != w || page.height() != h {
        return Err(format!("Page::new(_, {w}, {h}) has {} bytes, the layout prescribes {total}", page.as_bytes().len()));
    }
    let d = data_len(w, h);
    {
        let b = page.as_bytes();
        if b[0] != 0x3C || b[4..d].iter().any(|&x| x != 0) || b[d..].iter().any(|&x| x != 0xFF) {
            return Err(format!("a new {w}x{h} page is not blank data followed by 0xFF padding"));
        }
    }
    let mut coords: Vec<(u32, u32)> = vec![(0, 0), (w - 1, 0), (0, h - 1), (w - 1, h - 1), (w / 2, h / 2), (1u32.min(w - 1), 0), (0, 1u32.min(h - 1))];
    for k in 3..=31u32 {
        for dlt in [0u32, 1] {
            let v = (1u32 << k).wrapping_add(dlt);
            if v < h {
                coords.push((w - 1, v));
                coords.push((0, v - 1));
            }
            if v < w {
                coords.push((v, h - 1));
            }
        }
    }
    for dlt in 1..=9u32 {
        if dlt < h {
            coords.push((w - 1, h - 1 - dlt));
            coords.push((0, h - dlt));
        }
    }
    coords.sort();
    coords.dedup();
    let blank = page.as_bytes().to_vec();
    for &(x, y) in &coords {
        for v in [true, false] {
            catch(|| page.set_pixel(x, y, v)).map_err(|e| format!("in-bounds set_pixel({x},{y},{v}) on a {w}x{h} page panicked: {e}"))?;
            st.eval();
            let got = catch(|| page.get_pixel(x, y)).map_err(|e| format!("in-bounds get_pixel({x},{y}) on a {w}x{h} page panicked: {e}"))?;
            if got != v {
                return Err(format!("{w}x{h} page: pixel ({x},{y}) reads {got} after being set to {v}"));
            }
            let (bi, bit) = bit_pos(x, y, h);
            let b = page.as_bytes();
            if b.len() != total {
                return Err(format!("{w}x{h} page: set_pixel({x},{y}) changed the byte length to {}", b.len()));
            }
            // compare with the blank page: exactly the one bit differs while the pixel is on, nothing when it is off again
            let exact = if v {
                bi < total && b[..bi] == blank[..bi] && b[bi + 1..] == blank[bi + 1..] && b[bi] == blank[bi] ^ (1u8 << bit)
            } else {
                b == &blank[..]
            };
            if !exact {
                let mut diffs: Vec<(usize, u8)> = vec![];
                for (k, (p, q)) in b.iter().zip(blank.iter()).enumerate() {
                    if p != q {
                        diffs.push((k, p ^ q));
                        if diffs.len() >= 6 {
                            break;
                        }
                    }
                }
                return Err(format!("{w}x{h} page: set_pixel({x},{y},{v}) changed (byte, xor-mask) {diffs:?}; the layout puts the pixel at byte {bi} bit {bit} and nothing else may change"));
            }
        }
    }
    // the exposed bytes rebuild an equal page; one byte more or less is refused
    let again = catch(|| Page::from_bytes(w, h, page.as_bytes().to_vec())).map_err(|e| format!("from_bytes({w},{h}) panicked on a page's own bytes: {e}"))?;
    match again {
        Ok(p) if p == page => {}
        Ok(_) => return Err(format!("from_bytes({w},{h}, p.as_bytes()) != p")),
        Err(e) => return Err(format!("from_bytes({w},{h}) rejects the bytes of Page::new({w},{h}) ({total} bytes): {e}")),
    }
    for len in [total - 16, total - 1, total + 1, total + 16] {
        let buf = vec![0u8; len];
        if catch(|| Page::from_bytes(w, h, &buf[..]).is_ok()).map_err(|e| format!("from_bytes({w},{h},{len} bytes) panicked: {e}"))? {
            return Err(format!("from_bytes({w},{h}) accepted {len} bytes although the padded size is {total}"));
        }
    }
    st.class("giant-page");
    Ok(())
}

/// sizes for `check_giant`: more than 65535 chunks, heights / widths beyond 2^16, 2^24 (+1: not representable in f32)
pub const GIANT_SIZES: &[(u32, u32)] = &[(2048, 4096), (2047, 4096), (70_000, 128), (3, 2_800_000), (2, 16_777_217), (1, 33_554_439), (16_777_217, 2), (5, 16_777_225)];

pub fn run(ctx: &Ctx) {
    let (bw, bh) = ctx.tier.pick((32u32, 34u32), (64u32, 48u32));
    par_range(ctx, "box", ((bw + 1) * (bh + 1)) as u64, |i, st| {
        let w = i as u32 / (bh + 1);
        let h = i as u32 % (bh + 1);
        for id in [0u8, 1, 0x10, 0xFF, (w * 3 + h) as u8] {
            let c = SizeCase { w, h, id };
            check_size(&c, st).map_err(|m| (serde_json::to_value(&c).unwrap(), m))?;
        }
        if nontrivial_size(w, h) {
            st.nontrivial_enumerated(1);
        }
        Ok(())
    });
    ctx.part_done("box", true, json!({"box": [bw, bh], "ids": 5, "what": "new-page bytes, every pixel's bit, from_bytes length candidates"}));

    let mut sizes: Vec<(u32, u32)> = REAL_SIZES.to_vec();
    sizes.extend_from_slice(&[(1, 255), (255, 1), (300, 9), (1000, 64), (0, 0), (7, 0), (0, 7), (2, 256), (2, 257), (3, 300), (1, 1030), (2, 65537 / 64)]);
    par_range(ctx, "real-and-large-sizes", sizes.len() as u64, |i, st| {
        let (w, h) = sizes[i as usize];
        let c = SizeCase { w, h, id: 0xA5 };
        check_size(&c, st).map_err(|m| (serde_json::to_value(&c).unwrap(), m))?;
        if nontrivial_size(w, h) {
            st.nontrivial_enumerated(1);
        }
        Ok(())
    });
    ctx.part_done("real-and-large-sizes", true, json!("11 real sizes, 4 large sizes, 3 degenerate sizes"));

    let mut extremes: Vec<(u32, u32)> = vec![];
    for d in 0..=9u32 {
        extremes.push((0, u32::MAX - d));
        extremes.push((u32::MAX - d, 0));
        extremes.push((1, u32::MAX - d));
        extremes.push((u32::MAX - d, 1));
    }
    extremes.extend_from_slice(&[(0, 1 << 31), (3, u32::MAX / 2), (u32::MAX, u32::MAX), (65536, 65536), (0x1000_0000, 8), (0x0FFF_FFFF, 16)]);
    par_range(ctx, "extreme-dimensions", extremes.len() as u64, |i, st| {
        let (w, h) = extremes[i as usize];
        check_extreme(w, h, st).map_err(|m| (json!({"w": w, "h": h, "id": 0}), m))?;
        st.nontrivial_enumerated(1);
        Ok(())
    });
    ctx.part_done("extreme-dimensions", true, json!("widths/heights within 10 of u32::MAX (zero-width or zero-height pages are 16 bytes; others must reject small buffers), no arithmetic may overflow"));

    // Default, if this tree offers it for Page / PageId: the default page is a page like any other
    {
        #[allow(unused_imports)]
        use crate::engine::{DefaultProbe, NoDefault, ViaDefault};
        let mut st = Stats::new();
        st.evals(2);
        let r = catch(|| -> Result<Vec<&'static str>, String> {
            let mut offered = vec![];
            if let Some(id) = (&DefaultProbe::<PageId>(std::marker::PhantomData)).make() {
                offered.push("PageId: Default");
                let _ = id;
            }
            if let Some(p) = (&DefaultProbe::<Page<'static>>(std::marker::PhantomData)).make() {
                offered.push("Page: Default");
                let (w, h) = (p.width(), p.height());
                let want = new_bytes(p.as_bytes().first().copied().unwrap_or(0), w, h);
                if p.as_bytes() != &want[..] {
                    return Err(format!("Page::default() reports {w}x{h} and exposes {} bytes {:?}; the layout prescribes {} bytes", p.as_bytes().len(), &p.as_bytes()[..p.as_bytes().len().min(16)], want.len()));
                }
                let _ = p.id();
                match Page::from_bytes(w, h, p.as_bytes().to_vec()) {
                    Ok(q) if q == p => {}
                    other => return Err(format!("Page::default() is not the page rebuilt from its own bytes: {other:?}")),
                }
            }
            Ok(offered)
        });
        match r {
            Ok(Ok(offered)) => ctx.part_done("api-probes", true, json!({"probed": ["Page: Default", "PageId: Default"], "offered_by_this_tree": offered})),
            Ok(Err(m)) => {
                ctx.fail("api-probes", json!({"w": 0, "h": 0, "id": 0}), m);
            }
            Err(p) => {
                ctx.fail("api-probes", json!({"w": 0, "h": 0, "id": 0}), format!("Page::default() or an accessor of the default page panicked: {p}"));
            }
        }
        ctx.merge("api-probes", st);
    }

    par_range(ctx, "giant-pages", GIANT_SIZES.len() as u64, |i, st| {
        let (w, h) = GIANT_SIZES[i as usize];
        check_giant(w, h, st).map_err(|m| (json!({"w": w, "h": h, "id": 0}), m))?;
        st.nontrivial_enumerated(1);
        Ok(())
    });
    ctx.part_done("giant-pages", true, json!({"sizes": GIANT_SIZES, "what": "pages of 1-16 MB (more than 65535 chunks, heights and widths beyond 2^16 and 2^24): length, header, padding, ~130 probed pixels each exactly at its closed-form bit with no other byte changed, from_bytes round trip"}));

    // all ids on three sizes
    par_range(ctx, "all-ids", 256, |id, st| {
        for (w, h) in [(30u32, 10u32), (90, 7), (3, 17)] {
            let want = new_bytes(id as u8, w, h);
            let p = catch(|| Page::new(PageId(id as u8), w, h)).map_err(|e| (json!({"w": w, "h": h, "id": id}), format!("Page::new panicked: {e}")))?;
            st.eval();
            if p.as_bytes() != &want[..] || p.id() != PageId(id as u8) {
                return Err((json!({"w": w, "h": h, "id": id}), format!("Page::new({id},{w},{h}) bytes differ from the layout")));
            }
        }
        Ok(())
    });
    ctx.part_done("all-ids", true, json!("ids 0..=255 x 3 sizes"));

    run_generated(
        ctx,
        "edited",
        ctx.tier.pick(1_000_000, 6_000_000),
        move || {
            (
                prop_oneof![
                    10 => (0..=bw, 0..=bh),
                    4 => proptest::sample::select(REAL_SIZES.to_vec()),
                    1 => proptest::sample::select(vec![(1u32, 255u32), (255, 1), (300, 9), (1000, 64), (2, 257), (3, 300), (1, 1030)]),
                ],
                any::<u64>(),
                proptest::collection::vec((any::<u16>(), any::<u16>(), any::<bool>()), 0..30),
                proptest::collection::vec((any::<u16>(), any::<bool>()), 0..3),
                0u8..3,
                proptest::collection::vec(any::<u16>(), 0..2),
            )
                .prop_map(|((w, h), seed, sets, fills, origin, probes)| EditedCase { w, h, seed, sets, fills, origin, probes })
        },
        |c, st| check_edited(c, st),
    );
}

pub fn replay(part: &str, case: &Value) -> Result<(), String> {
    let mut st = Stats::new();
    if part == "edited" {
        let c: EditedCase = serde_json::from_value(case.clone()).map_err(|e| format!("bad case: {e}"))?;
        return check_edited(&c, &mut st);
    }
    let c: SizeCase = serde_json::from_value(case.clone()).map_err(|e| format!("bad case: {e}"))?;
    if part == "extreme-dimensions" {
        return check_extreme(c.w, c.h, &mut st);
    }
    if part == "giant-pages" {
        return check_giant(c.w, c.h, &mut st);
    }
    check_size(&c, &mut st)
}

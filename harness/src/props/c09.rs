//! C09 — controller data transfers are complete, ordered, correctly offset and counted.

use std::cell::RefCell;
use std::rc::Rc;

use flipdot::{Address, Page, Sign};
use flipdot_core::{Message, SignBus};
use proptest::prelude::*;
use serde::{Deserialize, Serialize};
use serde_json::{json, Value};

use crate::engine::{catch, h64, par_range, run_generated, Ctx, Stats};
use crate::oracle::vsign::*;
use crate::repr::M;

pub const RULE: &str = "transfers recorded by a cooperative recording bus (acknowledges requests, silent on data, answers each transfer's state query from a generated verdict list failed/received so that 0, 1, 2 retries and the give-up case occur): configure (and configure_if_needed for every state the sign may report to the opening hello) for all 11 sign types and send_pages with 0..6 pages whose sizes are generated independently of the sign's own size from one chunk (16 bytes) to 4096 chunks (65536 bytes, last offset 65520), contents pseudo-random, addresses across the 16-bit range; also sequences of 2..4 such transfers on ONE Sign object, each judged on its own slice of the transcript. The transcript is parsed attempt by attempt (request+ack, data chunks, count, state query) and each attempt's chunk list must equal, element for element, the list computed from the inputs (per item: offsets 0,16,32,..., <= 16 bytes each, concatenation = the item), the announced count must equal the number of chunks of that attempt, and the state query must come only after the count; the configuration item must equal an independent copy of the type's 16-byte block. Non-trivial = >= 2 pages, or a page size different from the sign's, or >= 1 retry; distinct by hash of the case";
pub const ASSUMPTIONS: &[&str] = &[
    "total chunks per attempt are kept <= 65535 because the count travels in a 16-bit field; beyond that the property is unsatisfiable by any implementation",
    "how many attempts occur is C10/C11's subject; every attempt that does occur is checked",
];

#[derive(Serialize, Deserialize, Debug, Clone, PartialEq, Eq, Hash)]
pub struct TransferCase {
    pub addr: u16,
    pub sign_type: u8,
    /// None = configure; Some(list of page sizes in chunks) = send_pages
    pub pages: Option<Vec<u16>>,
    pub seed: u64,
    /// verdict for each attempt's state query: true = received, false = failed
    pub verdicts: Vec<bool>,
    /// the receive request of this attempt (0-based) is not properly acknowledged:
    /// kind 0 = no reply, 1 = acknowledgement of another operation, 2 = acknowledgement from another address, 3 = a state report
    #[serde(default)]
    pub bad_ack: Option<(usize, u8)>,
    /// configuration through configure_if_needed; the recorder answers the hello with this state
    /// (index into table::STATES) from its own address
    #[serde(default)]
    pub if_needed_hello: Option<u8>,
    /// all pages of the list have identical contents (and, where sizes agree, are byte-identical neighbours)
    #[serde(default)]
    pub dup_pages: bool,
    /// the bus fails at this call index (0-based over the whole operation) with this kind of error
    /// (0 plain, 1 io Interrupted, 2 FrameError::Io(Interrupted), 3 io TimedOut)
    #[serde(default)]
    pub bus_error_at: Option<(usize, u8)>,
    /// the state query that concludes attempt number k (0-based) is answered "still receiving" (the matching
    /// in-progress state) instead of received / failed; the documented controller treats that as a protocol error
    #[serde(default)]
    pub in_progress_at: Option<usize>,
    /// in sequences: how this operation's page list relates to the previous one's (which it copies): 0/1 = as is,
    /// 2 = last page has other content, 3 = one more page appended
    #[serde(default)]
    pub relation: u8,
    /// the bus takes this many milliseconds of real time for call number k (a slow line, a busy sign): (k, ms)
    #[serde(default)]
    pub slow_call: Option<(usize, u16)>,
}

struct Recorder {
    own: u16,
    slow_call: Option<(usize, u16)>,
    in_progress_at: Option<usize>,
    bus_error_at: Option<(usize, u8)>,
    errored: bool,
    hello_state: Option<u8>,
    hellos: usize,
    bad_ack: Option<(usize, u8)>,
    transfer_requests: usize,
    verdicts: Vec<bool>,
    attempt: usize,
    log: Vec<(M, Option<M>)>,
    last_transfer_op: u8,
}

impl SignBus for Recorder {
    fn process_message<'a>(&mut self, message: Message<'_>) -> Result<Option<Message<'a>>, Box<dyn std::error::Error + Send + Sync>> {
        let m = M::from_message(&message);
        if self.log.len() > 300_000 {
            return Err("harness call cap".into());
        }
        if let Some((k, ms)) = self.slow_call {
            if k == self.log.len() {
                std::thread::sleep(std::time::Duration::from_millis(ms as u64));
            }
        }
        if let Some((at, kind)) = self.bus_error_at {
            if at == self.log.len() && !self.errored {
                self.errored = true;
                self.log.push((m, None));
                use std::io::{Error, ErrorKind};
                return Err(match kind % 4 {
                    1 => Box::new(Error::new(ErrorKind::Interrupted, "injected bus error")),
                    2 => Box::new(flipdot_core::FrameError::from(Error::new(ErrorKind::Interrupted, "injected bus error"))),
                    3 => Box::new(Error::new(ErrorKind::TimedOut, "injected bus error")),
                    _ => "injected bus error".into(),
                });
            }
        }
        let after_count = matches!(self.log.last(), Some((M::Count(_), _)));
        let reply = match &m {
            M::Hello(_) => {
                self.hellos += 1;
                // the first hello of a configure_if_needed call reports the scripted state; afterwards the reset
                // dance is answered cooperatively (ready-to-reset after a start-reset, else unconfigured)
                let after_start_reset = matches!(self.log.last(), Some((M::Req(_, o), _)) if *o == O_START_RESET);
                match (self.hellos, self.hello_state) {
                    (1, Some(s)) => Some(M::Report(self.own, s % 13)),
                    _ if after_start_reset => Some(M::Report(self.own, S_READY_TO_RESET)),
                    _ => Some(M::Report(self.own, S_UNCONFIGURED)),
                }
            }
            M::Req(_, o) => {
                let mut reply = Some(M::Ack(self.own, *o));
                if *o == O_RECEIVE_CONFIG || *o == O_RECEIVE_PIXELS {
                    self.last_transfer_op = *o;
                    if let Some((at, kind)) = self.bad_ack {
                        if at == self.transfer_requests {
                            reply = match kind % 4 {
                                0 => None,
                                1 => Some(M::Ack(self.own, O_SHOW_LOADED_PAGE)),
                                2 => Some(M::Ack(self.own ^ 0x0101, *o)),
                                _ => Some(M::Report(self.own, S_PIXELS_IN_PROGRESS)),
                            };
                        }
                    }
                    self.transfer_requests += 1;
                }
                reply
            }
            M::Query(_) if after_count => {
                let ok = self.verdicts.get(self.attempt).copied().unwrap_or(true);
                let still_receiving = self.in_progress_at == Some(self.attempt);
                self.attempt += 1;
                let (succ, failed) = if self.last_transfer_op == O_RECEIVE_CONFIG { (S_CONFIG_RECEIVED, S_CONFIG_FAILED) } else { (S_PIXELS_RECEIVED, S_PIXELS_FAILED) };
                if still_receiving {
                    Some(M::Report(self.own, if self.last_transfer_op == O_RECEIVE_CONFIG { S_CONFIG_IN_PROGRESS } else { S_PIXELS_IN_PROGRESS }))
                } else {
                    Some(M::Report(self.own, if ok { succ } else { failed }))
                }
            }
            M::Query(_) => Some(M::Report(self.own, S_PAGE_LOADED)),
            _ => None,
        };
        self.log.push((m, reply.clone()));
        Ok(reply.map(|r| r.to_message()))
    }
}

fn page_dims(chunks: u16) -> (u32, u32) {
    // height 8 -> one byte per column; data = 4 + w; padded to 16*chunks
    ((chunks as u32) * 16 - 4, 8)
}

fn items_of(c: &TransferCase) -> Vec<Vec<u8>> {
    match &c.pages {
        None => vec![BLOCKS[c.sign_type as usize % 11].to_vec()],
        Some(sizes) => {
            let mut items: Vec<Vec<u8>> = sizes
                .iter()
                .enumerate()
                .map(|(p, &chunks)| {
                    let p = if c.dup_pages { 0 } else { p as u64 };
                    (0..(chunks.max(1) as usize) * 16).map(|i| h64(&(c.seed, p, i as u64)) as u8).collect()
                })
                .collect();
            match c.relation {
                2 => {
                    if let Some(last) = items.last_mut() {
                        // same id byte, other content
                        for (i, b) in last.iter_mut().enumerate().skip(1) {
                            *b ^= 0x5A ^ i as u8;
                        }
                    }
                }
                3 => items.push((0..32).map(|i| h64(&(c.seed, "extra", i as u64)) as u8).collect()),
                _ => {}
            }
            items
        }
    }
}

/// run one transfer operation of `c` on an existing Sign; Err = controller panic
fn run_op(sign: &Sign, c: &TransferCase, items: &[Vec<u8>]) -> Result<Result<(), String>, String> {
    match &c.pages {
        None if c.if_needed_hello.is_some() => catch(|| sign.configure_if_needed().map(|_| ()).map_err(|e| format!("{e:?}"))),
        None => catch(|| sign.configure().map(|_| ()).map_err(|e| format!("{e:?}"))),
        Some(_) => {
            let pages: Vec<Page<'_>> = items
                .iter()
                .map(|bytes| {
                    let (w, h) = page_dims(((bytes.len() / 16) as u16).max(1));
                    Page::from_bytes(w, h, &bytes[..]).expect("harness builds pages of the padded size")
                })
                .collect();
            catch(|| sign.send_pages(&pages).map(|_| ()).map_err(|e| format!("{e:?}")))
        }
    }
    .map_err(|p| format!("the controller panicked during the transfer: {p}"))
}

pub fn check_transfer(c: &TransferCase, st: &mut Stats) -> Result<(), String> {
    let (sign_type, _, _, _, _) = TYPES[c.sign_type as usize % 11];
    let rec = Rc::new(RefCell::new(Recorder { own: c.addr, slow_call: c.slow_call, in_progress_at: c.in_progress_at, bus_error_at: c.bus_error_at, errored: false, hello_state: c.if_needed_hello, hellos: 0, bad_ack: c.bad_ack, transfer_requests: 0, verdicts: c.verdicts.clone(), attempt: 0, log: vec![], last_transfer_op: 0 }));
    let sign = Sign::new(rec.clone(), Address(c.addr), sign_type);
    let items = items_of(c);
    let total_chunks: usize = items.iter().map(|i| (i.len() + 15) / 16).sum();
    if total_chunks > 65535 {
        st.class("skipped:more-than-65535-chunks");
        return Ok(()); // outside the domain (16-bit count)
    }
    let r = run_op(&sign, c, &items)?;
    st.eval();
    let log = rec.borrow().log.clone();
    judge_slice(c, &items, &log, &r, st)
}

/// Several transfers on ONE Sign object and one recording bus (configure, then several send_pages with different
/// page lists): every operation's slice of the transcript is judged like a single transfer.
#[derive(Serialize, Deserialize, Debug, Clone, PartialEq, Eq, Hash)]
pub struct TransferSeq {
    pub ops: Vec<TransferCase>,
}

pub fn check_transfer_seq(c: &TransferSeq, st: &mut Stats) -> Result<(), String> {
    if c.ops.is_empty() {
        return Ok(());
    }
    let first = &c.ops[0];
    let (sign_type, _, _, _, _) = TYPES[first.sign_type as usize % 11];
    let verdicts: Vec<bool> = c.ops.iter().flat_map(|o| o.verdicts.iter().copied()).collect();
    let rec = Rc::new(RefCell::new(Recorder { own: first.addr, slow_call: None, in_progress_at: None, bus_error_at: None, errored: false, hello_state: None, hellos: 0, bad_ack: None, transfer_requests: 0, verdicts, attempt: 0, log: vec![], last_transfer_op: 0 }));
    let sign = Sign::new(rec.clone(), Address(first.addr), sign_type);
    for (k, op) in c.ops.iter().enumerate() {
        // every operation uses the first one's address and sign type (it is the same Sign object)
        // (an operation may be cut short by a bus failure at one of its calls; the operations after it are judged like any
        // other: what an aborted transfer left behind in the Sign object must not show in the next one)
        let op = TransferCase { addr: first.addr, sign_type: first.sign_type, bad_ack: None, ..op.clone() };
        let items = items_of(&op);
        if items.iter().map(|i| (i.len() + 15) / 16).sum::<usize>() > 65535 {
            return Ok(());
        }
        let start = rec.borrow().log.len();
        {
            let mut rb = rec.borrow_mut();
            rb.bus_error_at = op.bus_error_at.map(|(at, kind)| (start + at, kind));
            rb.errored = false;
        }
        if op.bus_error_at.is_some() && k + 1 < c.ops.len() {
            st.class("sequence:operation-after-an-aborted-one");
        }
        // the recorder's verdict list is consumed attempt by attempt: make this operation's verdicts line up
        let used = rec.borrow().attempt;
        let r = run_op(&sign, &op, &items)?;
        st.eval();
        let slice = rec.borrow().log[start..].to_vec();
        judge_slice(&op, &items, &slice, &r, st).map_err(|e| format!("operation {k} of a sequence on one Sign object: {e}"))?;
        // skip the verdicts this operation did not use, so that the next operation starts at its own list
        let mut rb = rec.borrow_mut();
        let planned: usize = c.ops[..=k].iter().map(|o| o.verdicts.len()).sum();
        if rb.attempt < planned {
            rb.attempt = planned;
        }
        let _ = used;
    }
    st.class("sequence-on-one-sign-object");
    Ok(())
}

fn judge_slice(c: &TransferCase, items: &[Vec<u8>], log: &[(M, Option<M>)], r: &Result<(), String>, st: &mut Stats) -> Result<(), String> {
    // an injected bus failure ends the conversation at that message (whether it really ends there is C11's subject);
    // what was sent up to and including the failing message must still be a prefix of the prescribed transfer
    if let Some((at, _)) = c.bus_error_at {
        if at + 1 == log.len() {
            return judge_truncated(c, items, log, 0, st);
        }
        // if the controller went on after the failure, everything it sent is judged like any other transfer
        // (a message repeated after the failure then shows up as a duplicated chunk or a wrong count)
    }
    let (sign_type, _, _, sw, sh) = TYPES[c.sign_type as usize % 11];
    let op = if c.pages.is_none() { O_RECEIVE_CONFIG } else { O_RECEIVE_PIXELS };

    // expected chunk list of one attempt
    let mut expected: Vec<M> = vec![];
    for item in items {
        let mut off = 0usize;
        while off < item.len() {
            let end = (off + 16).min(item.len());
            expected.push(M::Data { off: off as u16, data: item[off..end].to_vec() });
            off = end;
        }
    }

    // parse attempts
    let mut i = 0usize;
    // skip the reset/hello prefix of configure
    while i < log.len() && log[i].0 != M::Req(c.addr, op) {
        if matches!(log[i].0, M::Data { .. } | M::Count(_)) {
            return Err(format!("{} was sent before the sign acknowledged the receive request", log[i].0.short()));
        }
        i += 1;
    }
    let mut attempts = 0usize;
    while i < log.len() && log[i].0 == M::Req(c.addr, op) {
        attempts += 1;
        if log[i].1 != Some(M::Ack(c.addr, op)) {
            // this receive request was not acknowledged: no data may follow it
            if let Some((m, _)) = log[i + 1..].iter().find(|(m, _)| matches!(m, M::Data { .. } | M::Count(_))) {
                return Err(format!(
                    "attempt {attempts}: the receive request was answered with {:?} instead of its acknowledgement, but the controller went on to send {}",
                    log[i].1.as_ref().map(|r| r.short()),
                    m.short()
                ));
            }
            st.class("unacknowledged-request:nothing-sent-afterwards");
            st.nontrivial(h64(c));
            return Ok(());
        }
        i += 1;
        let start = i;
        while i < log.len() && matches!(log[i].0, M::Data { .. }) {
            i += 1;
        }
        let got: Vec<&M> = log[start..i].iter().map(|(m, _)| m).collect();
        if got.len() != expected.len() || got.iter().zip(expected.iter()).any(|(a, b)| *a != b) {
            let k = got.iter().zip(expected.iter()).take_while(|(a, b)| **a == *b).count();
            return Err(format!(
                "attempt {attempts}: chunk {k} is {} but the items prescribe {} ({} chunks sent, {} prescribed)",
                got.get(k).map(|m| describe_chunk(m)).unwrap_or_else(|| "missing".into()),
                expected.get(k).map(describe_chunk).unwrap_or_else(|| "nothing more".into()),
                got.len(),
                expected.len()
            ));
        }
        match log.get(i).map(|x| &x.0) {
            Some(M::Count(n)) => {
                if *n as usize != got.len() {
                    return Err(format!("attempt {attempts}: announced {n} chunks but sent {} since the request", got.len()));
                }
            }
            other => {
                return Err(format!(
                    "attempt {attempts}: after the chunks the controller sent {:?} instead of the chunk count",
                    other.map(|m| m.short())
                ))
            }
        }
        i += 1;
        match log.get(i).map(|x| &x.0) {
            Some(M::Query(a)) if *a == c.addr => {}
            other => return Err(format!("attempt {attempts}: the chunk count was followed by {:?} instead of the state query", other.map(|m| m.short()))),
        }
        i += 1;
    }
    if attempts == 0 {
        if c.if_needed_hello.is_some() {
            // configure_if_needed may decide that nothing is needed; then nothing data-like may have been sent either
            if let Some((m, _)) = log.iter().find(|(m, _)| matches!(m, M::Data { .. } | M::Count(_))) {
                return Err(format!("{} was sent although no receive request was made and acknowledged", m.short()));
            }
            st.class("configure_if_needed:nothing-transferred");
            return Ok(());
        }
        return Err(format!("no transfer attempt was made (result {r:?})"));
    }
    // nothing data-like outside the attempts
    for (m, _) in &log[i..] {
        if matches!(m, M::Data { .. } | M::Count(_)) {
            return Err(format!("{} was sent outside a transfer attempt", m.short()));
        }
    }
    let retries = attempts - 1;
    let odd_size = c.pages.as_ref().map(|s| s.iter().any(|&ch| (ch.max(1) as usize) * 16 != crate::oracle::page::total_len(sw, sh))).unwrap_or(false);
    let many = c.pages.as_ref().map(|s| s.len() >= 2).unwrap_or(false);
    if retries >= 1 || odd_size || many {
        st.nontrivial(h64(c));
    }
    st.class(&format!("attempts:{attempts}"));
    st.class(if c.pages.is_none() { "configure" } else { "send_pages" });
    if let Some(s) = &c.pages {
        if s.iter().any(|&ch| ch >= 4096) {
            st.class("page-at-16-bit-offset-limit");
        }
        if s.is_empty() {
            st.class("empty-page-list");
        }
    }
    if st.want_sample() && (retries >= 1 || many) {
        st.sample(json!({"addr": c.addr, "type": format!("{sign_type:?}"), "page_sizes_in_chunks": c.pages, "verdicts": c.verdicts, "attempts": attempts, "chunks_per_attempt": expected.len()}));
    }
    Ok(())
}

/// transcript that ends with the message on which the bus failed
fn judge_truncated(c: &TransferCase, items: &[Vec<u8>], log: &[(M, Option<M>)], sent_after: usize, st: &mut Stats) -> Result<(), String> {
    let op = if c.pages.is_none() { O_RECEIVE_CONFIG } else { O_RECEIVE_PIXELS };
    let mut expected: Vec<M> = vec![];
    for item in items {
        for (i, ch) in item.chunks(16).enumerate() {
            expected.push(M::Data { off: (i * 16) as u16, data: ch.to_vec() });
        }
    }
    // find the last receive request; everything data-like after it must be a prefix of [chunks.., count]
    if let Some(start) = log.iter().rposition(|(m, _)| *m == M::Req(c.addr, op)) {
        let mut k = 0usize;
        for (m, _) in &log[start + 1..] {
            match m {
                M::Data { .. } => {
                    if expected.get(k) != Some(m) {
                        return Err(format!(
                            "chunk {k} of the attempt that hit the bus failure is {} but the items prescribe {}",
                            describe_chunk(m),
                            expected.get(k).map(describe_chunk).unwrap_or_else(|| "nothing more".into())
                        ));
                    }
                    k += 1;
                }
                M::Count(n) => {
                    if *n as usize != k || k != expected.len() {
                        return Err(format!("announced {n} chunks after sending {k} of {} prescribed", expected.len()));
                    }
                }
                _ => {}
            }
        }
    } else if let Some((m, _)) = log.iter().find(|(m, _)| matches!(m, M::Data { .. } | M::Count(_))) {
        return Err(format!("{} was sent without a receive request", m.short()));
    }
    let _ = sent_after;
    st.class("bus-failure-mid-operation");
    st.nontrivial(h64(c));
    Ok(())
}

fn describe_chunk(m: &M) -> String {
    match m {
        M::Data { off, data } => format!("SendData(offset {off}, {} bytes, first {:02X?})", data.len(), &data[..data.len().min(4)]),
        other => other.short(),
    }
}

fn verdict_strategy() -> impl Strategy<Value = Vec<bool>> {
    prop_oneof![
        5 => Just(vec![true]),
        3 => Just(vec![false, true]),
        3 => Just(vec![false, false, true]),
        2 => Just(vec![false, false, false]),
        1 => Just(vec![false, false, false, false, true]),
    ]
}

fn case_strategy(max_pages: usize, big: bool) -> impl Strategy<Value = TransferCase> {
    let size = if big {
        prop_oneof![6 => 1u16..=12, 2 => Just(1u16), 2 => Just(2u16), 1 => proptest::sample::select(vec![255u16, 256, 257, 1000, 4095, 4096])].boxed()
    } else {
        prop_oneof![6 => 1u16..=12, 2 => Just(1u16), 2 => Just(2u16), 1 => proptest::sample::select(vec![64u16, 255, 256, 257])].boxed()
    };
    (
        prop_oneof![2 => proptest::sample::select(vec![0u16, 3, 0x7F, 0x100, 0xFFFF]), 1 => any::<u16>()],
        0u8..11,
        prop_oneof![1 => Just(None), 5 => proptest::collection::vec(size, 0..=max_pages).prop_map(Some)],
        any::<u64>(),
        verdict_strategy(),
        prop_oneof![4 => Just(None), 1 => (0usize..3, 0u8..4).prop_map(Some)],
        prop_oneof![4 => Just(false), 1 => Just(true)],
        prop_oneof![5 => Just(None), 1 => (0usize..40, 0u8..4).prop_map(Some)],
        prop_oneof![7 => Just(None), 1 => (0usize..3).prop_map(Some)],
    )
        .prop_map(|(addr, sign_type, pages, seed, verdicts, bad_ack, dup_pages, bus_error_at, in_progress_at)| TransferCase { addr, sign_type, pages, seed, verdicts, bad_ack, if_needed_hello: None, dup_pages, bus_error_at, in_progress_at, relation: 0, slow_call: None })
}

pub fn run(ctx: &Ctx) {
    // transfers on a bus where one exchange takes seconds of real time (they sleep, they do not compute: started here,
    // collected at the end)
    let slow_cases: Vec<TransferCase> = [(8usize, 1300u16), (3, 1300), (14, 2200), (1, 1100)]
        .into_iter()
        .take(ctx.tier.pick(2, 4))
        .enumerate()
        .map(|(i, (k, ms))| TransferCase { addr: 0x0044, sign_type: 5, pages: if i == 3 { None } else { Some(vec![6, 6]) }, seed: 31 + i as u64, verdicts: vec![true], bad_ack: None, if_needed_hello: None, dup_pages: false, bus_error_at: None, in_progress_at: None, relation: 0, slow_call: Some((k, ms)) })
        .collect();
    let slow_enabled = ctx.part_enabled("slow-bus");
    let slow_handles: Vec<_> = slow_cases
        .iter()
        .cloned()
        .filter(|_| slow_enabled)
        .map(|c| std::thread::spawn(move || { let r = check_transfer(&c, &mut Stats::new()); (c, r) }))
        .collect();

    // systematic: configure for every type x every verdict pattern; the sign's own page size x 0..3 pages
    let verdicts: Vec<Vec<bool>> = vec![vec![true], vec![false, true], vec![false, false, true], vec![false, false, false]];
    par_range(ctx, "all-types", 11, |t, st| {
        let (_, _, _, w, h) = TYPES[t as usize];
        let own_chunks = (crate::oracle::page::total_len(w, h) / 16) as u16;
        for (vi, v) in verdicts.iter().enumerate() {
            for addr in [0u16, 3, 0xFFFF] {
                let c = TransferCase { addr, sign_type: t as u8, pages: None, seed: 0, verdicts: v.clone(), bad_ack: None, if_needed_hello: None, dup_pages: false, bus_error_at: None, in_progress_at: None, relation: 0, slow_call: None };
                check_transfer(&c, st).map_err(|m| (serde_json::to_value(&c).unwrap(), m))?;
                for n in 0..=3usize {
                    let c = TransferCase { addr, sign_type: t as u8, pages: Some(vec![own_chunks; n]), seed: (t * 10 + vi as u64) as u64, verdicts: v.clone(), bad_ack: None, if_needed_hello: None, dup_pages: false, bus_error_at: None, in_progress_at: None, relation: 0, slow_call: None };
                    check_transfer(&c, st).map_err(|m| (serde_json::to_value(&c).unwrap(), m))?;
                    // the same transfer with the request of attempt 0 / 1 / 2 not acknowledged, in each of the four ways
                    let c = TransferCase { bad_ack: Some((vi % 3, (n + vi) as u8)), ..c };
                    check_transfer(&c, st).map_err(|m| (serde_json::to_value(&c).unwrap(), m))?;
                }
            }
        }
        Ok(())
    });
    par_range(ctx, "configure-if-needed-hello-states", 11 * 13, |i, st| {
        let c = TransferCase { addr: 0x0203, sign_type: (i % 11) as u8, pages: None, seed: 0, verdicts: vec![i % 3 != 0, true], bad_ack: None, if_needed_hello: Some((i / 11) as u8), dup_pages: false, bus_error_at: None, in_progress_at: None, relation: 0, slow_call: None };
        check_transfer(&c, st).map_err(|m| (serde_json::to_value(&c).unwrap(), m))
    });
    ctx.part_done("configure-if-needed-hello-states", true, json!("configure_if_needed for 11 types x the 13 states the sign may report to the opening hello"));
    par_range(ctx, "identical-pages-and-bus-failures", 64, |i, st| {
        // the same page two / three times in a row (same id, same bytes)
        let c = TransferCase { addr: 3, sign_type: (i % 11) as u8, pages: Some(vec![3; 2 + (i % 2) as usize]), seed: i, verdicts: vec![i % 3 != 0, true], bad_ack: None, if_needed_hello: None, dup_pages: true, bus_error_at: None, in_progress_at: None, relation: 0, slow_call: None };
        check_transfer(&c, st).map_err(|m| (serde_json::to_value(&c).unwrap(), m))?;
        // a bus failure of each kind at call index i of a two-page transfer
        for kind in 0..4u8 {
            let c = TransferCase { addr: 0x0405, sign_type: 5, pages: Some(vec![3, 2]), seed: 9, verdicts: vec![false, true], bad_ack: None, if_needed_hello: None, dup_pages: false, bus_error_at: Some((i as usize % 24, kind)), in_progress_at: None, relation: 0, slow_call: None };
            check_transfer(&c, st).map_err(|m| (serde_json::to_value(&c).unwrap(), m))?;
        }
        Ok(())
    });
    ctx.part_done("identical-pages-and-bus-failures", true, json!("page lists with byte-identical neighbours; a bus failure of 4 kinds (plain, io Interrupted, FrameError::Io(Interrupted), io TimedOut) at every call index of a two-page transfer with one retry"));
    ctx.part_done("all-types", true, json!("11 types x 4 verdict patterns x 3 addresses x (configure + 0..3 pages of the sign's size)"));

    // the 16-bit offset limit: one 65536-byte page, alone and with neighbours
    par_range(ctx, "offset-limit", 4, |k, st| {
        let pages = match k {
            0 => vec![4096u16],
            1 => vec![4096, 1],
            2 => vec![1, 4096, 2],
            _ => vec![4095, 4096],
        };
        let c = TransferCase { addr: 0x0102, sign_type: 5, pages: Some(pages), seed: k, verdicts: vec![k % 2 == 0, true], bad_ack: None, if_needed_hello: None, dup_pages: false, bus_error_at: None, in_progress_at: None, relation: 0, slow_call: None };
        check_transfer(&c, st).map_err(|m| (serde_json::to_value(&c).unwrap(), m))
    });
    ctx.part_done("offset-limit", true, json!("pages of 4096 chunks (last offset 65520), alone and next to small pages"));

    // long page lists: 255, 256, 257 ... pages in one call (more pages than one-byte page ids; every page must still go out)
    let long_lists: Vec<(usize, u16)> = vec![(255, 1), (256, 1), (257, 1), (300, 3), (513, 2), (1000, 1), (256, 6), (2000, 2)];
    par_range(ctx, "long-page-lists", long_lists.len() as u64 * 2, |k, st| {
        let (n, chunks) = long_lists[(k / 2) as usize];
        let c = TransferCase { addr: 0x0011, sign_type: (k % 11) as u8, pages: Some(vec![chunks; n]), seed: 77 + k, verdicts: if k % 2 == 0 { vec![true] } else { vec![false, true] }, bad_ack: None, if_needed_hello: None, dup_pages: false, bus_error_at: None, in_progress_at: None, relation: 0, slow_call: None };
        check_transfer(&c, st).map_err(|m| (serde_json::to_value(&c).unwrap(), m))?;
        st.nontrivial_enumerated(1);
        Ok(())
    });
    // an aborted transfer followed by another operation on the same Sign object: a bus failure at every call index of a
    // two-page transfer, then configure / the same pages again / other pages
    par_range(ctx, "aborted-then-next-on-one-sign", 30 * 3, |i, st| {
        let at = (i / 3) as usize;
        let first = TransferCase { addr: 0x0021, sign_type: 2, pages: Some(vec![3, 2]), seed: 5, verdicts: vec![true], bad_ack: None, if_needed_hello: None, dup_pages: false, bus_error_at: Some((at, (i % 4) as u8)), in_progress_at: None, relation: 0, slow_call: None };
        let second = match i % 3 {
            0 => TransferCase { pages: None, bus_error_at: None, ..first.clone() },
            1 => TransferCase { bus_error_at: None, ..first.clone() },
            _ => TransferCase { pages: Some(vec![1, 6]), seed: 6, verdicts: vec![false, true], bus_error_at: None, ..first.clone() },
        };
        let c = TransferSeq { ops: vec![first, second.clone(), second] };
        check_transfer_seq(&c, st).map_err(|m| (serde_json::to_value(&c).unwrap(), m))?;
        st.nontrivial_enumerated(1);
        Ok(())
    });
    ctx.part_done("aborted-then-next-on-one-sign", true, json!("a bus failure at each of the first 30 calls of a two-page transfer, followed by configure / the same pages / other pages on the same Sign object"));
    ctx.part_done("long-page-lists", true, json!("lists of 255, 256, 257, 300, 513, 1000, 2000 pages in one send_pages call, with and without a retry"));

    run_generated(ctx, "generated", ctx.tier.pick(500_000, 4_000_000), || case_strategy(6, false), |c, st| check_transfer(c, st));
    run_generated(
        ctx,
        "sequences",
        ctx.tier.pick(200_000, 1_500_000),
        || {
            // relation of each operation to the one before it: 0 = independent, 1 = the very same page list again,
            // 2 = the same list with the last page replaced (same sizes), 3 = the same list plus one page
            (proptest::collection::vec((case_strategy(4, false), prop_oneof![5 => Just(0u8), 2 => Just(1u8), 1 => Just(2u8), 1 => Just(3u8)]), 2..=4)).prop_map(|raw| {
                let mut ops: Vec<TransferCase> = vec![];
                for (mut op, rel) in raw {
                    if let (Some(prev), true) = (ops.last(), rel != 0) {
                        if let Some(prev_pages) = &prev.pages {
                            op.seed = prev.seed;
                            op.dup_pages = prev.dup_pages;
                            op.pages = Some(prev_pages.clone());
                            op.relation = rel;
                        }
                    }
                    ops.push(op);
                }
                TransferSeq { ops }
            })
        },
        |c, st| check_transfer_seq(c, st),
    );
    crate::engine::with_logging(|| {
        run_generated(ctx, "generated+logging", ctx.tier.pick(20_000, 300_000), || case_strategy(4, false), |c, st| check_transfer(c, st));
    });
    if !slow_handles.is_empty() {
        let mut st = Stats::new();
        for h in slow_handles {
            match h.join() {
                Ok((c, r)) => {
                    st.eval();
                    st.nontrivial(h64(&c));
                    st.class("slow-bus:one-exchange-takes-seconds");
                    if let Err(m) = r {
                        ctx.fail("slow-bus", serde_json::to_value(&c).unwrap(), format!("on a bus where call {} takes {} ms: {m}", c.slow_call.unwrap().0, c.slow_call.unwrap().1));
                    }
                }
                Err(_) => ctx.inconclusive("a slow-bus worker thread died".into()),
            }
        }
        ctx.merge("slow-bus", st);
        ctx.part_done("slow-bus", true, json!({"cases": slow_cases.len(), "what": "two-page transfers and a configuration on a recording bus where one exchange takes 1.1-2.2 s of real time; the transcript is judged like any other"}));
    }
    run_generated(ctx, "generated-large-pages", ctx.tier.pick(2_000, 40_000), || case_strategy(4, true), |c, st| check_transfer(c, st));
}

pub fn replay(part: &str, case: &Value) -> Result<(), String> {
    if part == "sequences" {
        let c: TransferSeq = serde_json::from_value(case.clone()).map_err(|e| format!("bad case: {e}"))?;
        return check_transfer_seq(&c, &mut Stats::new());
    }
    let c: TransferCase = serde_json::from_value(case.clone()).map_err(|e| format!("bad case: {e}"))?;
    check_transfer(&c, &mut Stats::new())
}

//! C02 — corrupted frames are rejected or decode to the original.

use flipdot_core::{Address, Data, Frame, MsgType};
use proptest::prelude::*;
use serde::{Deserialize, Serialize};
use serde_json::{json, Value};

use crate::engine::{catch, h64, par_range, run_generated, show_bytes, Ctx, Stats};
use crate::oracle::hex::{ref_encode, ref_shape};
use crate::props::c01::{addr_strategy, byte_strategy, FrameCase};

pub const RULE: &str = "for each generated valid frame (boundary-biased address/type/content, lengths biased small but including 255), with and without CRLF, the complete single-fault neighbourhood is enumerated: every position x every replacement byte 0..=255 (structural alphabet + 16 pseudo-random bytes for frames with more than 64 data bytes), every deletion, duplication, adjacent transposition of unequal characters and proper prefix; the same for generated frames whose data spells out another complete frame such that one damaged character leaves a well-formed tail (only a decoder that insists on the leading colon rejects those); plus generated forgeries of the right shape whose length field or checksum is wrong (hex letters in random case), including oversize lines that carry more data bytes than declared (up to 855, length field = count mod 256 / declared / FF, checksum consistent over the whole line or over the declared part). Oracle: decode = Err or Ok(original); forgeries must be Err; no panic. Non-trivial = a mutant that still has the documented shape (only the length/checksum logic can reject it) or that touches the terminator, and every forgery; distinct by (frame, crlf, operator, position, byte)";
pub const ASSUMPTIONS: &[&str] = &["mutants are derived from the harness's own reference encoding of the frame (oracle/hex.rs), which C01 shows to be byte-identical to Frame::to_bytes"];

#[derive(Serialize, Deserialize, Debug, Clone, Copy, PartialEq, Eq, Hash)]
pub enum Mutation {
    Sub { pos: usize, byte: u8 },
    Del { pos: usize },
    Dup { pos: usize },
    Swap { pos: usize },
    Prefix { len: usize },
}

#[derive(Serialize, Deserialize, Debug, Clone)]
pub struct MutantCase {
    pub frame: FrameCase,
    pub crlf: bool,
    pub mutation: Mutation,
}

const STRUCTURAL: &[u8] = b"0123456789ABCDEFabcdef:\r\nGg\x00\xff ";

fn apply(enc: &[u8], m: Mutation, out: &mut Vec<u8>) -> bool {
    out.clear();
    match m {
        Mutation::Sub { pos, byte } => {
            if pos >= enc.len() || enc[pos] == byte {
                return false;
            }
            out.extend_from_slice(enc);
            out[pos] = byte;
        }
        Mutation::Del { pos } => {
            if pos >= enc.len() {
                return false;
            }
            out.extend_from_slice(&enc[..pos]);
            out.extend_from_slice(&enc[pos + 1..]);
        }
        Mutation::Dup { pos } => {
            if pos >= enc.len() {
                return false;
            }
            out.extend_from_slice(&enc[..=pos]);
            out.extend_from_slice(&enc[pos..]);
        }
        Mutation::Swap { pos } => {
            if pos + 1 >= enc.len() || enc[pos] == enc[pos + 1] {
                return false;
            }
            out.extend_from_slice(enc);
            out.swap(pos, pos + 1);
        }
        Mutation::Prefix { len } => {
            if len >= enc.len() {
                return false;
            }
            out.extend_from_slice(&enc[..len]);
        }
    }
    true
}

fn original(frame: &FrameCase) -> Frame<'static> {
    Frame::new(Address(frame.addr), MsgType(frame.ty), Data::try_new(frame.data.clone()).expect("<= 255 bytes"))
}

fn encode(frame: &FrameCase, crlf: bool) -> Vec<u8> {
    let mut e = ref_encode(frame.addr, frame.ty, &frame.data);
    if crlf {
        e.extend_from_slice(b"\r\n");
    }
    e
}

/// oracle for one mutant (no catch: the caller wraps)
#[inline]
fn judge(orig: &Frame<'static>, mutant: &[u8]) -> Result<(), String> {
    // the same damaged text decoded twice in a row: each result is judged on its own (a decoder that remembers the
    // last line must not let it through the second time)
    judge_result(orig, mutant, Frame::from_bytes(mutant))?;
    judge_result(orig, mutant, Frame::from_bytes(mutant)).map_err(|e| format!("{e} (when the same text was decoded a second time)"))?;
    // the same text arriving as the last line of a stream (Frame::read): a damaged frame is a damaged frame on that path
    // too. Only texts that are one line (no line feed before the end) - Frame::read stops at the first line feed.
    if !mutant[..mutant.len().saturating_sub(1)].contains(&b'\n') {
        let mut stream: &[u8] = mutant;
        let r = Frame::read(&mut stream);
        if stream.is_empty() {
            judge_result(orig, mutant, r).map_err(|e| format!("{e} (read from a stream that ends after it)"))?;
        }
    }
    Ok(())
}

#[inline]
fn judge_result(orig: &Frame<'static>, mutant: &[u8], result: Result<Frame<'static>, flipdot_core::FrameError>) -> Result<(), String> {
    match result {
        Err(_) => Ok(()),
        Ok(f) if &f == orig => {
            // second sentence of the property: even when the result happens to equal the original, a text whose
            // declared length disagrees with its data, or whose checksum does not match, must not be accepted
            match crate::oracle::hex::ref_decode(mutant) {
                crate::oracle::hex::RefDecode::Mismatch { declared, actual } => Err(format!(
                    "damaged frame {} declares {declared} data bytes but carries {actual}, and was accepted",
                    show_bytes(mutant)
                )),
                crate::oracle::hex::RefDecode::BadChecksum { declared, computed } => Err(format!(
                    "damaged frame {} carries checksum {declared:#04x} where {computed:#04x} is right, and was accepted",
                    show_bytes(mutant)
                )),
                _ => Ok(()),
            }
        }
        Ok(f) => Err(format!(
            "damaged frame {} was accepted as a different frame: {:?}",
            show_bytes(mutant),
            f
        )),
    }
}

fn touches_terminator(enc_len: usize, crlf: bool, m: Mutation) -> bool {
    if !crlf {
        return false;
    }
    let t = enc_len - 2;
    match m {
        Mutation::Sub { pos, .. } | Mutation::Del { pos } | Mutation::Dup { pos } => pos >= t,
        Mutation::Swap { pos } => pos + 1 >= t,
        Mutation::Prefix { len } => len >= t,
    }
}

pub fn check_mutant(c: &MutantCase, st: &mut Stats) -> Result<(), String> {
    let enc = encode(&c.frame, c.crlf);
    let orig = original(&c.frame);
    let mut buf = Vec::new();
    if !apply(&enc, c.mutation, &mut buf) {
        return Ok(()); // not a fault (identity)
    }
    st.eval();
    match catch(|| judge(&orig, &buf)) {
        Ok(r) => r.map_err(|m| format!("{m} (mutation {:?} of {})", c.mutation, show_bytes(&enc))),
        Err(p) => Err(format!("decoder panicked on {}: {p}", show_bytes(&buf))),
    }
}

#[derive(Serialize, Deserialize, Debug, Clone)]
pub struct NeighbourhoodCase {
    pub frame: FrameCase,
    /// seed for the 16 extra substitution bytes used on long frames
    pub extra_seed: u64,
}

/// Enumerate the complete single-fault neighbourhood of both encodings of the frame.
pub fn check_neighbourhood(c: &NeighbourhoodCase, st: &mut Stats) -> Result<(), String> {
    let orig = original(&c.frame);
    let fh = h64(&c.frame);
    let full = c.frame.data.len() <= 64;
    let mut alphabet: Vec<u8> = if full { (0..=255u8).collect() } else { STRUCTURAL.to_vec() };
    if !full {
        for i in 0..16u64 {
            alphabet.push(h64(&(c.extra_seed, i)) as u8);
        }
    }
    for crlf in [false, true] {
        let enc = encode(&c.frame, crlf);
        let mut buf: Vec<u8> = Vec::with_capacity(enc.len() + 2);
        let mut current: Option<Mutation> = None;
        let mut n_eval = 0u64;
        let mut shape_ids: Vec<u64> = vec![];
        let r = catch(|| -> Result<(), String> {
            let mut run = |m: Mutation, buf: &mut Vec<u8>, current: &mut Option<Mutation>| -> Result<(), String> {
                if !apply(&enc, m, buf) {
                    return Ok(());
                }
                *current = Some(m);
                n_eval += 1;
                judge(&orig, buf)?;
                if ref_shape(buf).is_some() || touches_terminator(enc.len(), crlf, m) {
                    shape_ids.push(h64(&(fh, crlf, m)));
                }
                Ok(())
            };
            for pos in 0..enc.len() {
                for &b in &alphabet {
                    run(Mutation::Sub { pos, byte: b }, &mut buf, &mut current)?;
                }
                run(Mutation::Del { pos }, &mut buf, &mut current)?;
                run(Mutation::Dup { pos }, &mut buf, &mut current)?;
                run(Mutation::Swap { pos }, &mut buf, &mut current)?;
                run(Mutation::Prefix { len: pos }, &mut buf, &mut current)?;
            }
            Ok(())
        });
        st.evals(n_eval);
        for id in shape_ids {
            st.nontrivial(id);
            st.class("mutant-shape-preserving-or-terminator");
        }
        match r {
            Ok(Ok(())) => {}
            Ok(Err(m)) => return Err(format!("{m} (crlf={crlf}, mutation {:?} of {})", current, show_bytes(&enc))),
            Err(p) => {
                return Err(format!(
                    "decoder panicked on mutation {:?} of {} (crlf={crlf}): {p}",
                    current,
                    show_bytes(&enc)
                ))
            }
        }
    }
    st.class(if full { "frame<=64:all-256-substitutions" } else { "frame>64:structural-substitutions" });
    if st.want_sample() {
        st.sample(json!({"frame": c.frame, "wire": String::from_utf8_lossy(&encode(&c.frame, true)), "faults": "complete single-fault neighbourhood"}));
    }
    Ok(())
}

#[derive(Serialize, Deserialize, Debug, Clone)]
pub enum Forge {
    /// declared length = true length + delta (mod 256), checksum made consistent with the forged length
    Length { delta: u8 },
    /// checksum = right checksum + delta (mod 256)
    Checksum { delta: u8 },
    /// `extra` more data bytes than declared are on the line (so that the line may carry more than 255 data bytes);
    /// the length field is the true count mod 256 (mode 0), the count without the extra bytes (mode 1) or FF (mode 2); the
    /// checksum is consistent over the whole line (`over_all`) or over just the declared number of data bytes - what a
    /// decoder that stops counting at the declared or the maximal length would compute
    Oversize { extra: u16, mode: u8, over_all: bool },
}

#[derive(Serialize, Deserialize, Debug, Clone)]
pub struct ForgeryCase {
    pub frame: FrameCase,
    pub forge: Forge,
    pub crlf: bool,
    pub case_seed: u64,
}

fn forge_bytes(c: &ForgeryCase) -> Vec<u8> {
    let mut fields = vec![c.frame.data.len() as u8, (c.frame.addr >> 8) as u8, c.frame.addr as u8, c.frame.ty];
    fields.extend_from_slice(&c.frame.data);
    match c.forge {
        Forge::Length { delta } => {
            fields[0] = fields[0].wrapping_add(delta);
            let sum = fields.iter().fold(0u8, |a, &b| a.wrapping_add(b));
            fields.push(0u8.wrapping_sub(sum));
        }
        Forge::Checksum { delta } => {
            let sum = fields.iter().fold(0u8, |a, &b| a.wrapping_add(b));
            fields.push(0u8.wrapping_sub(sum).wrapping_add(delta));
        }
        Forge::Oversize { extra, mode, over_all } => {
            let declared_data = c.frame.data.len();
            for k in 0..extra as u64 {
                fields.push(h64(&(c.case_seed, "extra", k)) as u8);
            }
            let n = declared_data + extra as usize;
            fields[0] = match mode % 3 {
                0 => n as u8,
                1 => declared_data as u8,
                _ => 0xFF,
            };
            let counted = if over_all { fields.len() } else { (4 + fields[0] as usize).min(fields.len()) };
            let sum = fields[..counted].iter().fold(0u8, |a, &b| a.wrapping_add(b));
            fields.push(0u8.wrapping_sub(sum));
        }
    }
    let mut out = vec![b':'];
    for (i, b) in fields.iter().enumerate() {
        for (j, nib) in [b >> 4, b & 15].into_iter().enumerate() {
            let lower = h64(&(c.case_seed, i, j)) & 1 == 1;
            let ch = b"0123456789ABCDEF"[nib as usize];
            out.push(if lower { ch.to_ascii_lowercase() } else { ch });
        }
    }
    if c.crlf {
        out.extend_from_slice(b"\r\n");
    }
    out
}

pub fn check_forgery(c: &ForgeryCase, st: &mut Stats) -> Result<(), String> {
    let delta = match c.forge {
        Forge::Length { delta } | Forge::Checksum { delta } => delta,
        Forge::Oversize { extra, mode, .. } => {
            // not a forgery if the declared length is the true one
            let n = c.frame.data.len() + extra as usize;
            let declared = match mode % 3 {
                0 => n % 256,
                1 => c.frame.data.len(),
                _ => 255,
            };
            (declared != n) as u8
        }
    };
    if delta == 0 {
        return Ok(());
    }
    let bytes = forge_bytes(c);
    st.eval();
    st.nontrivial(h64(&bytes));
    st.class(match c.forge {
        Forge::Length { .. } => "forged-length",
        Forge::Checksum { .. } => "forged-checksum",
        Forge::Oversize { .. } => "forged-oversize-line",
    });
    if st.want_sample() {
        st.sample(json!({"forgery": show_bytes(&bytes), "kind": format!("{:?}", c.forge)}));
    }
    match catch(|| {
        // a forgery stays a forgery when the same text is decoded again (a decoder may remember the last line)
        for round in 1..=3 {
            if let Ok(f) = Frame::from_bytes(&bytes) {
                return Ok::<String, ()>(format!("{f:?} (decode number {round} of the same text)"));
            }
        }
        Err(())
    }) {
        Ok(Err(_)) => Ok(()),
        Ok(Ok(f)) => Err(format!(
            "a frame whose {} was accepted: {} -> {f}",
            match c.forge {
                Forge::Length { .. } | Forge::Oversize { .. } => "declared length disagrees with its data",
                Forge::Checksum { .. } => "checksum does not match",
            },
            show_bytes(&bytes)
        )),
        Err(p) => Err(format!("decoder panicked on {}: {p}", show_bytes(&bytes))),
    }
}

fn small_biased_data() -> impl Strategy<Value = Vec<u8>> {
    prop_oneof![
        10 => 0usize..=4,
        6 => 5usize..=20,
        2 => 21usize..=64,
        1 => proptest::sample::select(vec![65usize, 128, 254, 255]),
    ]
    .prop_flat_map(|n| {
        prop_oneof![
            6 => proptest::collection::vec(byte_strategy(), n),
            1 => Just(vec![0xFFu8; n]),
            1 => Just(vec![0x00u8; n]),
        ]
    })
}

fn small_frame_strategy() -> impl Strategy<Value = FrameCase> {
    (addr_strategy(), byte_strategy(), small_biased_data()).prop_map(|(addr, ty, data)| FrameCase { addr, ty, data })
}

/// A frame whose data spells out the fields of another, complete frame, arranged so that damaging one
/// low-nibble character into ':' leaves a tail that is itself a well-formed frame with a right length field and
/// checksum (the bytes before the tail sum to 0 mod 256). Only a decoder that insists on the colon being the
/// first character rejects that mutant.
pub fn embedded_frame(outer_addr: u16, inner: &FrameCase, filler: &[u8], header_variant: bool) -> FrameCase {
    let mut f: Vec<u8> = vec![inner.data.len() as u8, (inner.addr >> 8) as u8, inner.addr as u8, inner.ty];
    f.extend_from_slice(&inner.data);
    let (hi, lo) = ((outer_addr >> 8) as u8, outer_addr as u8);
    if header_variant || filler.is_empty() {
        // the damaged character is the low nibble of the outer message type
        let n = f.len() as u8;
        let ty = 0u8.wrapping_sub(n).wrapping_sub(hi).wrapping_sub(lo);
        return FrameCase { addr: outer_addr, ty, data: f };
    }
    let n = (filler.len() + f.len()) as u8;
    let ty = 0x00u8;
    let mut x = filler.to_vec();
    let k = x.len();
    let partial = x[..k - 1].iter().fold(n.wrapping_add(hi).wrapping_add(lo).wrapping_add(ty), |a, &b| a.wrapping_add(b));
    x[k - 1] = 0u8.wrapping_sub(partial);
    x.extend_from_slice(&f);
    FrameCase { addr: outer_addr, ty, data: x }
}

pub fn run(ctx: &Ctx) {
    // fixed, deterministic part: the protocol's own frames (every recognised message code) at a few addresses
    let mut fixed: Vec<FrameCase> = vec![];
    for addr in [0u16, 3, 0x7F, 0xFFFF, 0xABCD] {
        fixed.push(FrameCase { addr, ty: 1, data: vec![] });
        for b in [0xFFu8, 0x00, 0x55] {
            fixed.push(FrameCase { addr, ty: 2, data: vec![b] });
        }
        for b in [0xA1u8, 0xA2, 0xA9, 0xAA, 0xA6, 0xA7] {
            fixed.push(FrameCase { addr, ty: 3, data: vec![b] });
        }
        for b in [0x0Fu8, 0x0D, 0x07, 0x0C, 0x03, 0x01, 0x0B, 0x10, 0x13, 0x12, 0x11, 0x00, 0x08] {
            fixed.push(FrameCase { addr, ty: 4, data: vec![b] });
        }
        for b in [0x95u8, 0x91, 0x96, 0x97, 0x93, 0x94] {
            fixed.push(FrameCase { addr, ty: 5, data: vec![b] });
        }
        fixed.push(FrameCase { addr, ty: 6, data: vec![0] });
        fixed.push(FrameCase { addr: addr & 0xFFF0, ty: 0, data: (0..16).map(|i| (i * 17) as u8).collect() });
    }
    par_range(ctx, "protocol-frames", fixed.len() as u64, |i, st| {
        let c = NeighbourhoodCase { frame: fixed[i as usize].clone(), extra_seed: i };
        check_neighbourhood(&c, st).map_err(|m| (serde_json::to_value(&c).unwrap(), m))
    });
    ctx.part_done("protocol-frames", true, json!("complete single-fault neighbourhood of every protocol message frame at 5 addresses"));

    run_generated(
        ctx,
        "neighbourhood",
        ctx.tier.pick(2_000, 30_000),
        || (small_frame_strategy(), any::<u64>()).prop_map(|(frame, extra_seed)| NeighbourhoodCase { frame, extra_seed }),
        |c, st| check_neighbourhood(c, st),
    );

    // frames that embed another frame (see embedded_frame)
    run_generated(
        ctx,
        "neighbourhood-embedded-frame",
        ctx.tier.pick(600, 20_000),
        || {
            (
                addr_strategy(),
                (addr_strategy(), byte_strategy(), proptest::collection::vec(byte_strategy(), 0..5)),
                proptest::collection::vec(byte_strategy(), 0..6),
                any::<bool>(),
                any::<u64>(),
            )
                .prop_map(|(outer_addr, (addr, ty, data), filler, header_variant, extra_seed)| NeighbourhoodCase {
                    frame: embedded_frame(outer_addr, &FrameCase { addr, ty, data }, &filler, header_variant),
                    extra_seed,
                })
        },
        |c, st| {
            st.class("frame-embedding-another-frame");
            check_neighbourhood(c, st)
        },
    );

    // oversize lines, systematically: frames of 0, 1, 254 and 255 declared data bytes with 1..=3 and 255..=258 extra bytes, all
    // three length-field modes, checksum over the line / over the declared part
    let mut oversize: Vec<ForgeryCase> = vec![];
    for len in [0usize, 1, 2, 16, 254, 255] {
        for extra in [1u16, 2, 3, 255, 256, 257, 258, 512] {
            for mode in 0..3u8 {
                for over_all in [false, true] {
                    for crlf in [false, true] {
                        oversize.push(ForgeryCase {
                            frame: FrameCase { addr: 0x1234, ty: (len as u8) ^ 5, data: (0..len).map(|k| (k as u8).wrapping_mul(29)).collect() },
                            forge: Forge::Oversize { extra, mode, over_all },
                            crlf,
                            case_seed: extra as u64 * 7 + len as u64,
                        });
                    }
                }
            }
        }
    }
    par_range(ctx, "oversize-lines", oversize.len() as u64, |i, st| {
        let c = &oversize[i as usize];
        check_forgery(c, st).map_err(|m| (serde_json::to_value(c).unwrap(), m))
    });
    ctx.part_done("oversize-lines", true, json!({"cases": oversize.len(), "what": "lines with more data bytes than declared, up to 767 data bytes: length field = count mod 256 / declared / FF, checksum over the line / over the declared part"}));

    run_generated(
        ctx,
        "forgery",
        ctx.tier.pick(300_000, 6_000_000),
        || {
            (
                small_frame_strategy(),
                prop_oneof![
                    4 => (1u8..=255).prop_map(|delta| Forge::Length { delta }),
                    4 => (1u8..=255).prop_map(|delta| Forge::Checksum { delta }),
                    1 => (prop_oneof![2 => 1u16..=8, 3 => 250u16..=262, 1 => 1u16..=600], 0u8..3, any::<bool>()).prop_map(|(extra, mode, over_all)| Forge::Oversize { extra, mode, over_all }),
                ],
                any::<bool>(),
                any::<u64>(),
            )
                .prop_map(|(frame, forge, crlf, case_seed)| ForgeryCase { frame, forge, crlf, case_seed })
        },
        |c, st| check_forgery(c, st),
    );
}

pub fn replay(part: &str, case: &Value) -> Result<(), String> {
    let mut st = Stats::new();
    match part {
        "mutant" => {
            let c: MutantCase = serde_json::from_value(case.clone()).map_err(|e| format!("bad case: {e}"))?;
            check_mutant(&c, &mut st)
        }
        "forgery" | "oversize-lines" => {
            let c: ForgeryCase = serde_json::from_value(case.clone()).map_err(|e| format!("bad case: {e}"))?;
            check_forgery(&c, &mut st)
        }
        _ => {
            let c: NeighbourhoodCase = serde_json::from_value(case.clone()).map_err(|e| format!("bad case: {e}"))?;
            check_neighbourhood(&c, &mut st)
        }
    }
}

/// totality only (used by the stacked-fault part of the frame_corrupt fuzz target)
pub fn decode_total(bytes: &[u8]) -> bool {
    Frame::from_bytes(bytes).is_ok()
}

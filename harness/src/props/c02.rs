//! stub
use serde_json::Value;
use crate::engine::Ctx;
pub const RULE: &str = "";
pub const ASSUMPTIONS: &[&str] = &[];
pub fn run(_ctx: &Ctx) {}
pub fn replay(_part: &str, _case: &Value) -> Result<(), String> { Err("not implemented".into()) }

//! C08 — pages sent through the controller arrive bit-exact, from any prior sign state.

use std::cell::RefCell;
use std::rc::Rc;

use flipdot::{Address, Page, PageFlipStyle, PageId, Sign};
use flipdot_core::{SignBus, State};
use flipdot_testing::{VirtualSign, VirtualSignBus};
use proptest::prelude::*;
use serde::{Deserialize, Serialize};
use serde_json::{json, Value};

use crate::engine::{catch, h64, par_range, run_generated, Ctx, Stats};
use crate::oracle::page::total_len;
use crate::oracle::vsign::*;
use crate::props::c12::{expand, hop_for_c08, Block, Fault, HOp};
use crate::repr::M;

pub const RULE: &str = "scenarios = sign type (all 11) x flip style x address (boundary set and uniform) x prior state of the virtual sign, produced (a) by a directed prefix for each of the 13 protocol states with variants (another sign type configured before, a partial page buffered, an abandoned transfer, pages stored, reset pending) and (b) by 0..40 messages/transfers of random prior traffic from the C12 alphabet, optionally with a second sign on the bus (half of the time driven by its own controller between the rounds, both signs then have to hold exactly their own pages); then configure or configure_if_needed (the latter only where its trust contract holds, otherwise configure is used and counted), then 1..3 rounds of send_pages with 0..4 pages of the sign's size (blank, full, random bits, random raw bytes including header and padding; arbitrary ids) interleaved with show_loaded_page / load_next_page calls, optionally shut_down and a second configuration as a different type with another send. Oracle after every call: result Ok (with the sign's flip style for send_pages), VirtualSign state / sign_type / pages exactly as the statement prescribes (pages compared byte for byte, in order). Non-trivial = a prior state other than a fresh sign, or >= 2 pages, or a repeated send; distinct by hash of the scenario";
pub const ASSUMPTIONS: &[&str] = &[
    "the sign under the controller is flipdot's own VirtualSign (C13 covers its conformance to the sign-side state machine)",
    "a panic during the *prior traffic* phase belongs to C12 and discards the scenario (counted); configure_if_needed on a sign that reports itself ready with the same type legitimately does nothing, so 'no pages' is then not asserted",
];

#[derive(Serialize, Deserialize, Debug, Clone, PartialEq, Eq, Hash)]
pub enum PageSpec {
    Blank(u8),
    Full(u8),
    Bits(u8, u64),
    /// every byte (header, pixels, padding) pseudo-random
    Raw(u64),
}

#[derive(Serialize, Deserialize, Debug, Clone, PartialEq, Eq, Hash)]
pub struct Round {
    pub pages: Vec<PageSpec>,
    /// true = show_loaded_page, false = load_next_page
    pub calls: Vec<bool>,
}

#[derive(Serialize, Deserialize, Debug, Clone, PartialEq, Eq, Hash)]
pub struct Scenario {
    pub sign_type: u8,
    pub automatic: bool,
    pub addr: u16,
    pub bystander: Option<(u16, bool)>,
    /// directed prefix: (target state index, variant)
    pub directed: Option<(u8, u8)>,
    pub prior: Vec<HOp>,
    pub use_configure_if_needed: bool,
    pub rounds: Vec<Round>,
    /// shut down, reconfigure as this other type and send these pages
    pub epilogue: Option<(u8, Vec<PageSpec>)>,
    /// a second controller drives the bystander sign (configure, then one send after every round of the main sign);
    /// both signs must end up with exactly their own pages
    #[serde(default)]
    pub bystander_active: bool,
}

fn make_page(spec: &PageSpec, w: u32, h: u32) -> Page<'static> {
    match spec {
        PageSpec::Blank(id) => Page::new(PageId(*id), w, h),
        PageSpec::Full(id) => {
            let mut p = Page::new(PageId(*id), w, h);
            p.set_all_pixels(true);
            p
        }
        PageSpec::Bits(id, seed) => {
            let mut p = Page::new(PageId(*id), w, h);
            for x in 0..w {
                for y in 0..h {
                    if h64(&(*seed, x, y)) & 1 == 1 {
                        p.set_pixel(x, y, true);
                    }
                }
            }
            p
        }
        PageSpec::Raw(seed) => {
            let bytes: Vec<u8> = (0..total_len(w, h)).map(|i| h64(&(*seed, i as u64)) as u8).collect();
            Page::from_bytes(w, h, bytes).expect("padded length")
        }
    }
}

/// message-level prefix that drives a fresh sign towards the given protocol state
pub fn directed_prefix(state: u8, variant: u8, addr: u16, own_type: u8) -> Vec<HOp> {
    let other = (own_type + 1 + variant % 9) % 11;
    let ty = if variant % 2 == 0 { own_type } else { other };
    let cfg = |t: u8| HOp::Config { addr, block: Block::Real(t), fault: Fault::None };
    let pix = |pages: u8, fault: Fault, complete: bool| HOp::Pixels { addr, pages, seed: 77 + variant as u64, fault, complete };
    let mut v: Vec<HOp> = vec![];
    match state {
        S_UNCONFIGURED => {
            if variant % 3 == 1 {
                v.extend([cfg(other), pix(1, Fault::None, true), HOp::Msg(M::Goodbye(addr))]);
            } else if variant % 3 == 2 {
                v.extend([cfg(other), HOp::Msg(M::Req(addr, O_START_RESET)), HOp::Msg(M::Req(addr, O_FINISH_RESET))]);
            }
        }
        S_CONFIG_IN_PROGRESS => {
            v.push(HOp::Msg(M::Req(addr, O_RECEIVE_CONFIG)));
            if variant % 2 == 1 {
                v.push(HOp::Msg(M::Data { off: 0, data: BLOCKS[other as usize].to_vec() }));
            }
        }
        S_CONFIG_RECEIVED => v.push(cfg(ty)),
        S_CONFIG_FAILED => v.push(HOp::Config { addr, block: Block::Real(ty), fault: Fault::CountDelta(1 + (variant % 3) as i8) }),
        S_PIXELS_IN_PROGRESS => {
            v.push(cfg(ty));
            v.push(pix(1 + variant % 2, if variant % 3 == 0 { Fault::NoCount } else { Fault::Drop((variant as u16).wrapping_mul(9000)) }, false));
            if variant % 3 != 0 {
                // Drop still sends the count: re-enter the receiving state and abandon it half way
                v.push(HOp::Msg(M::Req(addr, O_RECEIVE_PIXELS)));
                v.push(HOp::Msg(M::Data { off: 0, data: vec![0x5A; 16] }));
                v.push(HOp::Msg(M::Data { off: 16, data: vec![0xA5; 16] }));
            }
        }
        S_PIXELS_RECEIVED => v.extend([cfg(ty), pix(1 + variant % 3, Fault::None, false)]),
        S_PIXELS_FAILED => v.extend([cfg(ty), pix(1 + variant % 2, Fault::CountDelta(-1), false)]),
        S_PAGE_LOADED | S_SHOWING_PAGES => v.extend([cfg(ty), pix(1 + variant % 3, Fault::None, true)]),
        S_PAGE_SHOW_IN_PROGRESS => v.extend([cfg(ty), pix(2, Fault::None, true), HOp::Flip { addr, steps: 1 }]),
        S_PAGE_SHOWN => v.extend([cfg(ty), pix(2, Fault::None, true), HOp::Flip { addr, steps: 3 }]),
        S_PAGE_LOAD_IN_PROGRESS => v.extend([cfg(ty), pix(2, Fault::None, true), HOp::Flip { addr, steps: 4 }]),
        S_READY_TO_RESET => {
            match variant % 4 {
                0 => {}
                1 => v.push(cfg(ty)),
                2 => v.extend([cfg(ty), pix(1, Fault::NoCount, false)]),
                _ => v.extend([cfg(ty), pix(2, Fault::None, true)]),
            }
            v.push(HOp::Msg(M::Req(addr, O_START_RESET)));
        }
        _ => {}
    }
    v
}

fn ready(s: State) -> bool {
    matches!(
        s,
        State::ConfigReceived | State::ShowingPages | State::PageLoaded | State::PageShowInProgress | State::PageShown | State::PageLoadInProgress
    )
}

/// The same page list sent twice through ONE controller object, with someone else replacing the sign's pages in
/// between (a second controller object for the same sign, or raw protocol traffic): after the second send the sign must
/// hold exactly that list again - what a controller object remembers about its own earlier calls says nothing about
/// what the sign holds now.
#[derive(Serialize, Deserialize, Debug, Clone, PartialEq, Eq, Hash)]
pub struct ResendCase {
    pub sign_type: u8,
    pub automatic: bool,
    pub addr: u16,
    pub pages: Vec<PageSpec>,
    /// 0 nobody, 1 a second Sign object sends other pages, 2 raw traffic loads other pages, 3 the sign is reset and
    /// reconfigured (same type) by a second Sign object which sends nothing
    pub intruder: u8,
    /// the first controller calls configure_if_needed before its second send
    pub if_needed_before_resend: bool,
}

pub fn check_resend(c: &ResendCase, st: &mut Stats) -> Result<(), String> {
    let (t, _, _, w, h) = TYPES[c.sign_type as usize % 11];
    let flip = if c.automatic { PageFlipStyle::Automatic } else { PageFlipStyle::Manual };
    let bus = Rc::new(RefCell::new(VirtualSignBus::new(vec![VirtualSign::new(Address(c.addr), flip)])));
    let first = Sign::new(bus.clone(), Address(c.addr), t);
    let list: Vec<Page<'static>> = c.pages.iter().map(|s| make_page(s, w, h)).collect();
    let holds = |what: &str, want: &[Page<'static>]| -> Result<(), String> {
        let b = bus.borrow();
        let got = b.sign(0).pages();
        if got.len() != want.len() || got.iter().zip(want.iter()).any(|(a, b)| a.as_bytes() != b.as_bytes()) {
            return Err(format!("{what}: the sign holds {} pages (ids {:?}), not the {} pages just sent (ids {:?})", got.len(), got.iter().map(|p| p.id().0).collect::<Vec<_>>(), want.len(), want.iter().map(|p| p.id().0).collect::<Vec<_>>()));
        }
        Ok(())
    };
    let send = |who: &Sign, what: &str, pages: &[Page<'static>]| -> Result<(), String> {
        let style = catch(|| who.send_pages(pages)).map_err(|p| format!("{what}: send_pages panicked: {p}"))?.map_err(|e| format!("{what}: send_pages failed: {e}"))?;
        if style != flip {
            return Err(format!("{what}: send_pages reported {style:?} for a {flip:?} sign"));
        }
        Ok(())
    };
    catch(|| first.configure()).map_err(|p| format!("configure panicked: {p}"))?.map_err(|e| format!("configure failed: {e}"))?;
    send(&first, "first send", &list)?;
    st.eval();
    holds("first send", &list)?;
    match c.intruder % 4 {
        0 => {}
        1 => {
            let second = Sign::new(bus.clone(), Address(c.addr), t);
            let other: Vec<Page<'static>> = vec![make_page(&PageSpec::Bits(0xEE, 4242), w, h)];
            catch(|| second.configure_if_needed()).map_err(|p| format!("second controller: configure_if_needed panicked: {p}"))?.map_err(|e| format!("second controller: configure_if_needed failed: {e}"))?;
            send(&second, "second controller", &other)?;
            holds("second controller", &other)?;
        }
        2 => {
            let ops = [HOp::Pixels { addr: c.addr, pages: 1, seed: 99, fault: Fault::None, complete: true }];
            for op in &ops {
                for m in expand(op, w, h) {
                    let _ = catch(|| bus.borrow_mut().process_message(m.to_message()).map(|_| ())).map_err(|p| format!("raw traffic panicked: {p}"))?;
                }
            }
        }
        _ => {
            let second = Sign::new(bus.clone(), Address(c.addr), t);
            catch(|| second.configure()).map_err(|p| format!("second controller: configure panicked: {p}"))?.map_err(|e| format!("second controller: configure failed: {e}"))?;
        }
    }
    st.eval();
    if c.if_needed_before_resend || c.intruder % 4 == 3 {
        catch(|| first.configure_if_needed()).map_err(|p| format!("configure_if_needed panicked: {p}"))?.map_err(|e| format!("configure_if_needed failed: {e}"))?;
    }
    if c.intruder % 2 == 0 {
        // the caller's page iterator looks at the sign between pages (progress display, lazily rendered pages): what the
        // caller does while the controller pulls the next page must not disturb the transfer
        let looked = std::cell::Cell::new(0usize);
        let style = catch(|| {
            first.send_pages(list.iter().inspect(|_| {
                looked.set(looked.get() + 1);
                let _ = bus.borrow().sign(0).state();
            }))
        })
        .map_err(|p| format!("second send (page iterator that looks at the sign between pages): send_pages panicked: {p}"))?
        .map_err(|e| format!("second send (page iterator that looks at the sign between pages): send_pages failed: {e}"))?;
        if style != flip {
            return Err(format!("second send: send_pages reported {style:?} for a {flip:?} sign"));
        }
    } else {
        send(&first, "second send of the same list", &list)?;
    }
    st.eval();
    holds("second send of the same list through the same controller object", &list)?;
    let want_state = if c.automatic { State::ShowingPages } else { State::PageLoaded };
    if bus.borrow().sign(0).state() != want_state || bus.borrow().sign(0).sign_type() != Some(t) {
        return Err(format!("after the second send the sign is {:?} / {:?}", bus.borrow().sign(0).state(), bus.borrow().sign(0).sign_type()));
    }
    st.nontrivial(h64(c));
    st.class(["resend:nobody-in-between", "resend:second-controller-in-between", "resend:raw-traffic-in-between", "resend:reset-in-between"][(c.intruder % 4) as usize]);
    Ok(())
}

pub fn check_scenario(c: &Scenario, st: &mut Stats) -> Result<(), String> {
    let _announced = if crate::props::c12::heavy(&c.prior) || c.rounds.iter().any(|r| r.pages.len() > 100) {
        Some(crate::engine::inflight("C08", "scenarios", || serde_json::to_value(c).unwrap_or_default()))
    } else {
        None
    };
    let (t, _, _, w, h) = TYPES[c.sign_type as usize % 11];
    let flip = if c.automatic { PageFlipStyle::Automatic } else { PageFlipStyle::Manual };
    let mut signs = vec![VirtualSign::new(Address(c.addr), flip)];
    if let Some((a, f)) = c.bystander {
        if a != c.addr {
            signs.insert(
                if a & 1 == 0 { 0 } else { 1 },
                VirtualSign::new(Address(a), if f { PageFlipStyle::Automatic } else { PageFlipStyle::Manual }),
            );
        }
    }
    let idx = signs.iter().position(|s| s.address() == Address(c.addr)).unwrap();
    let bus = Rc::new(RefCell::new(VirtualSignBus::new(signs)));

    // ---- prior traffic (message level, straight onto the virtual bus) ----
    let mut model = SignModel::new(c.addr, c.automatic);
    let mut prefix: Vec<HOp> = c.directed.map(|(s, v)| directed_prefix(s % 13, v, c.addr, c.sign_type % 11)).unwrap_or_default();
    prefix.extend(c.prior.iter().cloned());
    let prior_ok = catch(|| {
        for op in &prefix {
            let (msgs, reps): (Vec<M>, u32) = match op {
                HOp::Repeat { msg, n } => (vec![msg.clone()], (*n).min(50)),
                other => (expand(other, model.w, model.h), 1),
            };
            for m in &msgs {
                for _ in 0..reps {
                    let _ = bus.borrow_mut().process_message(m.to_message());
                    let _ = model.step(m);
                }
            }
        }
    });
    if prior_ok.is_err() {
        st.class("discarded:panic-in-prior-traffic(C12)");
        return Ok(());
    }
    let prior_state = bus.borrow().sign(idx).state();
    let prior_type = bus.borrow().sign(idx).sign_type();
    let prior_pages = bus.borrow().sign(idx).pages().len();
    let fresh = prefix.is_empty();

    let sign = Sign::new(bus.clone(), Address(c.addr), t);
    let observe = || {
        let b = bus.borrow();
        let s = b.sign(idx);
        (s.state(), s.sign_type(), s.pages().iter().map(|p| (p.width(), p.height(), p.as_bytes().to_vec())).collect::<Vec<_>>())
    };

    // ---- configure ----
    let trusted_ready = ready(prior_state) && prior_type == Some(t);
    let cin_allowed = !ready(prior_state) || prior_type == Some(t);
    let use_cin = c.use_configure_if_needed && cin_allowed;
    if c.use_configure_if_needed && !cin_allowed {
        st.class("configure_if_needed-outside-its-contract->configure");
    }
    let r = catch(|| if use_cin { sign.configure_if_needed() } else { sign.configure() })
        .map_err(|p| format!("{} panicked (prior state {prior_state:?}): {p}", if use_cin { "configure_if_needed" } else { "configure" }))?;
    st.eval();
    let entry = if use_cin { "configure_if_needed" } else { "configure" };
    if let Err(e) = r {
        return Err(format!("{entry} failed from prior state {prior_state:?} (type {prior_type:?}, {prior_pages} pages): {e}"));
    }
    let (s, ty, pages) = observe();
    if ty != Some(t) {
        return Err(format!("after {entry} from {prior_state:?} the sign reports type {ty:?}, not {t:?}"));
    }
    if use_cin && trusted_ready {
        if !ready(s) {
            return Err(format!("after {entry} on a ready sign ({prior_state:?}) the sign is in {s:?}"));
        }
    } else {
        if s != State::ConfigReceived {
            return Err(format!("after {entry} from {prior_state:?} the sign is in {s:?}, not ConfigReceived"));
        }
        if !pages.is_empty() {
            return Err(format!("after {entry} from {prior_state:?} the sign still holds {} pages", pages.len()));
        }
    }

    // ---- optional second controller on the same bus ----
    let by_idx = c.bystander.and_then(|(a, _)| if a != c.addr { Some(if idx == 0 { 1 } else { 0 }) } else { None });
    let by_type = TYPES[(c.sign_type as usize + 5) % 11];
    let by_sign = match (c.bystander_active, c.bystander, by_idx) {
        (true, Some((a, _)), Some(_)) => Some(Sign::new(bus.clone(), Address(a), by_type.0)),
        _ => None,
    };
    if let (Some(bs), Some(bi)) = (&by_sign, by_idx) {
        let before_main = observe();
        catch(|| bs.configure())
            .map_err(|p| format!("second controller: configure panicked: {p}"))?
            .map_err(|e| format!("second controller: configure of the other sign failed: {e}"))?;
        st.eval();
        let b = bus.borrow();
        if b.sign(bi).state() != State::ConfigReceived || b.sign(bi).sign_type() != Some(by_type.0) || !b.sign(bi).pages().is_empty() {
            return Err(format!("second controller: after configure the other sign is {:?} / {:?} / {} pages", b.sign(bi).state(), b.sign(bi).sign_type(), b.sign(bi).pages().len()));
        }
        drop(b);
        if observe() != before_main {
            return Err("configuring the other sign through its own controller changed this sign".into());
        }
        st.class("second-controller-on-the-bus");
    }

    // ---- rounds of send / show / load ----
    let send_and_check = |specs: &[PageSpec], w: u32, h: u32, sign: &Sign, what: &str| -> Result<(), String> {
        let list: Vec<Page<'static>> = specs.iter().map(|p| make_page(p, w, h)).collect();
        let r = catch(|| sign.send_pages(&list)).map_err(|p| format!("{what}: send_pages panicked: {p}"))?;
        let style = r.map_err(|e| format!("{what}: send_pages of {} pages failed: {e}", list.len()))?;
        if style != flip {
            return Err(format!("{what}: send_pages reported {style:?} for a {flip:?} sign"));
        }
        let (s, _, got) = observe();
        let want_state = if c.automatic { State::ShowingPages } else { State::PageLoaded };
        if s != want_state {
            return Err(format!("{what}: after send_pages the sign is in {s:?}, not {want_state:?}"));
        }
        if got.len() != list.len() {
            return Err(format!("{what}: sent {} pages, the sign holds {}", list.len(), got.len()));
        }
        for (i, (p, q)) in list.iter().zip(got.iter()).enumerate() {
            if p.width() != q.0 || p.height() != q.1 || p.as_bytes() != &q.2[..] {
                let d = p.as_bytes().iter().zip(q.2.iter()).position(|(a, b)| a != b);
                return Err(format!(
                    "{what}: page {i} differs on the sign ({}x{} vs {}x{}, first differing byte {:?})",
                    p.width(),
                    p.height(),
                    q.0,
                    q.1,
                    d
                ));
            }
        }
        Ok(())
    };
    let mut sends = 0;
    for (ri, round) in c.rounds.iter().enumerate() {
        send_and_check(&round.pages, w, h, &sign, &format!("round {ri} from prior {prior_state:?}"))?;
        sends += 1;
        st.eval();
        for (ci, &show) in round.calls.iter().enumerate() {
            let before = observe();
            let r = catch(|| if show { sign.show_loaded_page() } else { sign.load_next_page() }).map_err(|p| format!("round {ri} call {ci}: panicked: {p}"))?;
            st.eval();
            let name = if show { "show_loaded_page" } else { "load_next_page" };
            r.map_err(|e| format!("round {ri} call {ci}: {name} failed in state {:?}: {e}", before.0))?;
            let after = observe();
            if c.automatic {
                if after != before {
                    return Err(format!("round {ri} call {ci}: {name} changed an automatic sign ({:?} -> {:?})", before.0, after.0));
                }
            } else {
                let want = if show { State::PageShown } else { State::PageLoaded };
                if after.0 != want {
                    return Err(format!("round {ri} call {ci}: after {name} from {:?} the sign is in {:?}, not {want:?}", before.0, after.0));
                }
                if after.2 != before.2 {
                    return Err(format!("round {ri} call {ci}: {name} changed the stored pages"));
                }
            }
        }
        if let (Some(bs), Some(bi)) = (&by_sign, by_idx) {
            let before_main = observe();
            let page = make_page(&PageSpec::Bits(ri as u8, 99 + ri as u64), by_type.3, by_type.4);
            let list = [page];
            catch(|| bs.send_pages(&list))
                .map_err(|p| format!("second controller: send_pages panicked: {p}"))?
                .map_err(|e| format!("second controller: send_pages to the other sign failed in round {ri}: {e}"))?;
            st.eval();
            let b = bus.borrow();
            if b.sign(bi).pages() != &list[..] {
                return Err(format!("second controller: the other sign does not hold the page sent to it in round {ri}"));
            }
            drop(b);
            if observe() != before_main {
                return Err(format!("round {ri}: a transfer to the other sign through its own controller changed this sign"));
            }
        }
    }
    // ---- epilogue: shut down, reconfigure as another type, send again ----
    if let Some((other, specs)) = &c.epilogue {
        let _ = catch(|| sign.shut_down()).map_err(|p| format!("shut_down panicked: {p}"))?;
        let (t2, _, _, w2, h2) = TYPES[*other as usize % 11];
        let sign2 = Sign::new(bus.clone(), Address(c.addr), t2);
        catch(|| sign2.configure())
            .map_err(|p| format!("second configure panicked: {p}"))?
            .map_err(|e| format!("second configure (as {t2:?}) after shut_down failed: {e}"))?;
        let (s, ty, pages) = observe();
        if s != State::ConfigReceived || ty != Some(t2) || !pages.is_empty() {
            return Err(format!("after reconfiguring as {t2:?} the sign is {s:?} / {ty:?} / {} pages", pages.len()));
        }
        send_and_check(specs, w2, h2, &sign2, "epilogue")?;
        sends += 1;
        st.eval();
    }

    let many_pages = c.rounds.iter().any(|r| r.pages.len() >= 2);
    if !fresh || many_pages || sends >= 2 {
        st.nontrivial(h64(c));
    }
    st.class(&format!("prior:{prior_state:?} x {entry}"));
    if c.directed.is_some() && c.prior.is_empty() {
        st.class("prior-by:directed-prefix");
    } else if !c.prior.is_empty() {
        st.class("prior-by:random-traffic");
    } else {
        st.class("prior-by:fresh-sign");
    }
    if st.want_sample() && !fresh && many_pages {
        st.sample(json!({"type": format!("{t:?}"), "automatic": c.automatic, "addr": c.addr, "prior_state": format!("{prior_state:?}"), "prior_type": format!("{prior_type:?}"),
            "entry": entry, "rounds": c.rounds.iter().map(|r| json!({"pages": r.pages.len(), "calls": r.calls})).collect::<Vec<_>>(), "epilogue": c.epilogue.as_ref().map(|e| e.0)}));
    }
    Ok(())
}

// ---------------------------------------------------------------------------------------

fn page_spec_strategy() -> impl Strategy<Value = PageSpec> {
    // ids are arbitrary; half of them come from {0, 1, 2} so that lists with repeated ids are common
    let id = || prop_oneof![1 => 0u8..3, 1 => any::<u8>()];
    prop_oneof![
        1 => id().prop_map(PageSpec::Blank),
        1 => id().prop_map(PageSpec::Full),
        3 => (id(), any::<u64>()).prop_map(|(i, s)| PageSpec::Bits(i, s)),
        2 => any::<u64>().prop_map(PageSpec::Raw),
    ]
}

fn round_strategy(max_pages: usize) -> impl Strategy<Value = Round> {
    (proptest::collection::vec(page_spec_strategy(), 0..=max_pages), proptest::collection::vec(any::<bool>(), 0..4)).prop_map(|(pages, calls)| Round { pages, calls })
}

fn scenario_strategy(max_pages: usize) -> impl Strategy<Value = Scenario> {
    (
        (0u8..11, any::<bool>(), prop_oneof![2 => proptest::sample::select(vec![0u16, 3, 0x7F, 0x100, 0xFFFF]), 1 => any::<u16>()]),
        prop_oneof![2 => Just(None), 1 => (any::<u16>(), any::<bool>()).prop_map(Some)],
        prop_oneof![1 => Just(None), 4 => (0u8..13, any::<u8>()).prop_map(Some)],
        any::<bool>(),
        proptest::collection::vec(round_strategy(max_pages), 1..=3),
        prop_oneof![3 => Just(None), 1 => (0u8..11, proptest::collection::vec(page_spec_strategy(), 0..=2)).prop_map(Some)],
        prop_oneof![3 => Just(0usize), 2 => 1usize..40],
        any::<bool>(),
    )
        .prop_flat_map(|((sign_type, automatic, addr), bystander, directed, cin, rounds, epilogue, n_prior, by_active)| {
            let others = vec![addr.wrapping_add(1), bystander.map(|b: (u16, bool)| b.0).unwrap_or(addr ^ 0x0100)];
            (
                Just((sign_type, automatic, addr, bystander, directed, cin, rounds, epilogue, by_active)),
                proptest::collection::vec(hop_for_c08(addr, others), n_prior..=n_prior),
            )
        })
        .prop_map(|((sign_type, automatic, addr, bystander, directed, cin, rounds, epilogue, bystander_active), prior)| Scenario {
            bystander_active,
            sign_type,
            automatic,
            addr,
            bystander,
            directed,
            prior,
            use_configure_if_needed: cin,
            rounds,
            epilogue,
        })
}

pub fn run(ctx: &Ctx) {
    // systematic: every type x flip style x every directed prior state x 4 variants x both entry points
    par_range(ctx, "directed-prior-states", 11 * 2 * 13, |i, st| {
        let sign_type = (i % 11) as u8;
        let automatic = (i / 11) % 2 == 1;
        let state = (i / 22) as u8;
        for variant in 0..6u8 {
            for cin in [false, true] {
                let c = Scenario {
                    sign_type,
                    automatic,
                    addr: [3u16, 0, 0xFFFF, 0x0100, 0x7F, 0xABCD][variant as usize],
                    bystander: if variant % 2 == 0 { None } else { Some((0x0042, !automatic)) },
                    directed: Some((state, variant)),
                    prior: vec![],
                    use_configure_if_needed: cin,
                    rounds: vec![
                        Round { pages: vec![PageSpec::Bits(1, i), PageSpec::Raw(i + 1), PageSpec::Bits(1, i + 2)], calls: vec![true, false, false, true] },
                        Round { pages: if variant % 3 == 0 { vec![] } else { vec![PageSpec::Full(9)] }, calls: vec![false, true, false, true] },
                    ],
                    epilogue: if variant == 5 { Some(((sign_type + 3) % 11, vec![PageSpec::Bits(2, 5)])) } else { None },
                    bystander_active: variant % 4 == 1,
                };
                check_scenario(&c, st).map_err(|m| (serde_json::to_value(&c).unwrap(), m))?;
            }
        }
        Ok(())
    });
    ctx.part_done("directed-prior-states", true, json!("11 types x 2 flip styles x 13 directed prior states x 6 variants x {configure, configure_if_needed}"));

    // long page lists in one send_pages call (more pages than there are one-byte page ids)
    par_range(ctx, "long-page-lists", 8, |i, st| {
        let n = [255usize, 256, 257, 300][(i % 4) as usize];
        let c = Scenario {
            sign_type: if i < 4 { 5 } else { 4 },
            automatic: i % 2 == 1,
            addr: 0x0033,
            bystander: if i >= 4 { Some((0x0034, false)) } else { None },
            directed: None,
            prior: vec![],
            use_configure_if_needed: false,
            rounds: vec![
                Round { pages: (0..n).map(|k| if k % 3 == 0 { PageSpec::Raw(i * 1000 + k as u64) } else { PageSpec::Bits(k as u8, i + k as u64) }).collect(), calls: vec![true, false] },
                Round { pages: vec![PageSpec::Full(1)], calls: vec![] },
            ],
            epilogue: None,
            bystander_active: false,
        };
        check_scenario(&c, st).map_err(|m| (serde_json::to_value(&c).unwrap(), m))?;
        st.nontrivial_enumerated(1);
        Ok(())
    });
    ctx.part_done("long-page-lists", true, json!("255, 256, 257 and 300 pages in one send_pages call, two sign types, both flip styles"));

    // the same list twice through one controller object, with and without somebody else in between
    par_range(ctx, "resend-same-list", 11 * 2 * 4 * 2, |i, st| {
        let c = ResendCase {
            sign_type: (i % 11) as u8,
            automatic: (i / 11) % 2 == 1,
            addr: [3u16, 0, 0xFFFF, 0x0100][(i % 4) as usize],
            pages: match i % 3 {
                0 => vec![PageSpec::Bits(1, i)],
                1 => vec![PageSpec::Bits(7, i), PageSpec::Raw(i + 1)],
                _ => vec![PageSpec::Full(2), PageSpec::Blank(3), PageSpec::Bits(4, i)],
            },
            intruder: ((i / 22) % 4) as u8,
            if_needed_before_resend: (i / 88) % 2 == 1,
        };
        check_resend(&c, st).map_err(|m| (serde_json::to_value(&c).unwrap(), m))
    });
    ctx.part_done("resend-same-list", true, json!("11 types x 2 flip styles x {nobody, second controller object, raw traffic, reset + reconfigure} in between x {plain, configure_if_needed first}: the same page list sent twice through one controller object"));

    let max_pages = ctx.tier.pick(4, 12);
    run_generated(ctx, "scenarios", ctx.tier.pick(450_000, 3_000_000), move || scenario_strategy(max_pages), |c, st| check_scenario(c, st));

    crate::engine::with_logging(|| {
        run_generated(ctx, "scenarios+logging", ctx.tier.pick(15_000, 200_000), move || scenario_strategy(max_pages), |c, st| check_scenario(c, st));
    });

    // generator health: every prior state must be reachable through both entry points often enough
    if !ctx.stopped() {
        for s in crate::oracle::table::STATES.iter().map(|x| x.0) {
            let n = ctx.class_count(&format!("prior:{s:?} x configure")) + ctx.class_count(&format!("prior:{s:?} x configure_if_needed"));
            // states a manual/automatic sign cannot both reach are still reached by one of the styles
            if n < 50 {
                ctx.inconclusive(format!("generator health: prior state {s:?} was exercised only {n} times"));
            }
        }
    }
}

pub fn replay(part: &str, case: &Value) -> Result<(), String> {
    if part == "resend-same-list" {
        let c: ResendCase = serde_json::from_value(case.clone()).map_err(|e| format!("bad case: {e}"))?;
        return check_resend(&c, &mut Stats::new());
    }
    let c: Scenario = serde_json::from_value(case.clone()).map_err(|e| format!("bad case: {e}"))?;
    check_scenario(&c, &mut Stats::new())
}

//! C05 — every specific message survives its wire frame.

use flipdot_core::{ChunkCount, Data, Frame, Message, Offset};
use proptest::prelude::*;
use serde::{Deserialize, Serialize};
use serde_json::{json, Value};

use crate::engine::{catch, h64, par_range, run_generated, show_bytes, Ctx, Stats};
use crate::props::c01::{addr_strategy, data_strategy};
use crate::repr::{all_addressed, M};

pub const RULE: &str = "messages are all specific (non-Unknown) messages constructible through the public API: every addressed kind x all 65536 addresses x all 13 states / 6 operations and all 65536 chunk counts (exhaustive), and data chunks with generated offsets and data of every length 0..=255 (every length x 4 offsets exhaustively, contents generated), owned and borrowed; each goes Message -> Frame -> wire text (with and without CRLF) -> Frame -> Message and must come back equal; encodings of different messages must differ (all messages of an address pairwise, generated pairs of data chunks). Non-trivial = a data chunk of length < 2 or > 16, or any address/offset/count >= 0x100; distinct by construction / by hash";
pub const ASSUMPTIONS: &[&str] = &["the harness's mirror type M converts to and from Message variant by variant (repr.rs)"];

#[derive(Serialize, Deserialize, Debug, Clone)]
pub struct MsgCase {
    pub msg: M,
}

pub fn check_msg(m: &M, st: &mut Stats) -> Result<(), String> {
    if m.is_unknown() {
        return Ok(());
    }
    let nontrivial = match m {
        M::Data { off, data } => data.len() < 2 || data.len() > 16 || *off >= 0x100,
        M::Count(n) => *n >= 0x100,
        M::Hello(a) | M::Query(a) | M::Goodbye(a) | M::PixelsComplete(a) | M::Report(a, _) | M::Req(a, _) | M::Ack(a, _) => *a >= 0x100,
        M::Unknown { .. } => false,
    };
    let variants: &[bool] = if matches!(m, M::Data { .. }) { &[true, false] } else { &[true] };
    for &owned in variants {
        let how = if owned { "owned" } else { "borrowed" };
        let r = catch(|| -> Result<(), String> {
            let storage: Vec<u8> = match m {
                M::Data { data, .. } => data.clone(),
                _ => vec![],
            };
            let msg: Message<'_> = match (m, owned) {
                (M::Data { off, .. }, false) => Message::SendData(Offset(*off), Data::try_new(&storage[..]).unwrap()),
                _ => m.to_message(),
            };
            let frame = Frame::from(msg.clone());
            for newline in [false, true] {
                let wire = if newline { frame.to_bytes_with_newline() } else { frame.to_bytes() };
                // a rejected text decoded on this thread just before must not influence the next decode
                let mut bad = frame.to_bytes();
                let last = bad.len() - 1;
                bad[last] = if bad[last] == b'0' { b'1' } else { b'0' };
                let _ = Frame::from_bytes(&bad);
                let mut garbled: &[u8] = b":01000304\xff\xfe\r\n";
                let _ = Frame::read(&mut garbled);
                let back = Frame::from_bytes(&wire).map_err(|e| format!("wire form {} of {} does not decode: {e}", show_bytes(&wire), m.short()))?;
                // the same trip through the stream interface (Frame::write -> Frame::read)
                // (a writer that implements nothing but write(): default write_all / write_vectored / flush)
                struct OnlyWrite(Vec<u8>);
                impl std::io::Write for OnlyWrite {
                    fn write(&mut self, buf: &[u8]) -> std::io::Result<usize> {
                        let n = buf.len().min(7);
                        self.0.extend_from_slice(&buf[..n]);
                        Ok(n)
                    }
                    fn flush(&mut self) -> std::io::Result<()> {
                        Ok(())
                    }
                }
                let mut pipe = OnlyWrite(vec![]);
                frame.write(&mut pipe).map_err(|e| format!("Frame::write into a plain writer failed: {e}"))?;
                frame.write(&mut pipe).map_err(|e| format!("second Frame::write into a plain writer failed: {e}"))?;
                let pipe = pipe.0;
                // (a reader that serves two bytes per call and reports Interrupted on every third call)
                struct Choppy<'x>(&'x [u8], usize);
                impl std::io::Read for Choppy<'_> {
                    fn read(&mut self, buf: &mut [u8]) -> std::io::Result<usize> {
                        self.1 += 1;
                        if self.1 % 3 == 0 {
                            return Err(std::io::Error::new(std::io::ErrorKind::Interrupted, "interrupted"));
                        }
                        let n = buf.len().min(2).min(self.0.len());
                        buf[..n].copy_from_slice(&self.0[..n]);
                        self.0 = &self.0[n..];
                        Ok(n)
                    }
                }
                let mut rd = Choppy(&pipe, 0);
                let back2 = Frame::read(&mut rd).map_err(|e| format!("{} written with Frame::write does not read back: {e}", m.short()))?;
                if back2 != back {
                    return Err(format!("{}: Frame::write -> Frame::read gives {back2:?}, decoding the wire text gives {back:?}", m.short()));
                }
                let back3 = Frame::read(&mut rd).map_err(|e| format!("{} written twice with Frame::write: the second frame does not read back: {e}", m.short()))?;
                if back3 != back {
                    return Err(format!("{}: the second of two frames written back to back reads as {back3:?}", m.short()));
                }
                // the wire text itself as a stream (with its line end, or ending at end-of-stream without one: the
                // terminator is optional in the wire form)
                let mut rd = Choppy(&wire, 0);
                let back4 = Frame::read(&mut rd).map_err(|e| format!("wire form {} of {} does not read back from a stream that ends after it: {e}", show_bytes(&wire), m.short()))?;
                if back4 != back {
                    return Err(format!("{}: Frame::read of the wire text gives {back4:?}, Frame::from_bytes gives {back:?}", m.short()));
                }
                let msg2 = Message::from(back);
                if msg2 == msg && h64(&msg2) != h64(&msg) {
                    return Err(format!("{}: the message that came back equals the one sent but hashes differently", m.short()));
                }
                if msg2 != msg {
                    let len = match m {
                        M::Data { data, .. } => data.len().min(2),
                        _ => 9,
                    };
                    return Err(format!(
                        "sig=roundtrip:{}:len{}; {} ({how}) -> wire {} -> {}",
                        match m {
                            M::Data { .. } => "SendData",
                            _ => "other",
                        },
                        len,
                        m.short(),
                        show_bytes(&wire),
                        M::from_message(&msg2).short()
                    ));
                }
                // same kind / numbers / bytes, stated on the mirror type as well (guards against a lax PartialEq)
                if M::from_message(&msg2) != *m {
                    return Err(format!("{} ({how}) came back as {}", m.short(), M::from_message(&msg2).short()));
                }
            }
            Ok(())
        });
        st.eval();
        match r {
            Ok(Ok(())) => {}
            Ok(Err(e)) => return Err(e),
            Err(p) => return Err(format!("panic on the wire round trip of {} ({how}): {p}", m.short())),
        }
    }
    if nontrivial {
        st.class("nontrivial");
    }
    if st.want_sample() && nontrivial {
        st.sample(json!({"message": m.short()}));
    }
    Ok(())
}

fn wire_of(m: &M) -> Vec<u8> {
    Frame::from(m.to_message()).to_bytes()
}

#[derive(Serialize, Deserialize, Debug, Clone)]
pub struct PairCase {
    pub a: M,
    pub b: M,
}

pub fn check_pair(c: &PairCase, st: &mut Stats) -> Result<(), String> {
    if c.a == c.b || c.a.is_unknown() || c.b.is_unknown() {
        return Ok(());
    }
    st.eval();
    let (wa, wb) = catch(|| (wire_of(&c.a), wire_of(&c.b))).map_err(|p| format!("panic encoding: {p}"))?;
    if wa == wb {
        return Err(format!(
            "different messages {} and {} share the wire encoding {}",
            c.a.short(),
            c.b.short(),
            show_bytes(&wa)
        ));
    }
    Ok(())
}

fn data_msg_strategy() -> impl Strategy<Value = M> {
    (
        prop_oneof![3 => proptest::sample::select(vec![0u16, 16, 32, 0xF0, 0x100, 0xFFF0, 0xFFFF]), 2 => addr_strategy()],
        data_strategy(),
    )
        .prop_map(|(off, data)| M::Data { off, data })
}

pub fn run(ctx: &Ctx) {
    // every addressed kind and chunk count at every address ----------------------------------
    par_range(ctx, "all-addresses", 65536, |i, st| {
        let addr = i as u16;
        let msgs = all_addressed(addr);
        let mut wires: Vec<Vec<u8>> = Vec::with_capacity(msgs.len() + 2);
        for m in &msgs {
            check_msg(m, st).map_err(|e| (json!({"msg": m}), e))?;
            wires.push(wire_of(m));
        }
        // data chunks at this offset, empty and one byte (the short ends)
        for data in [vec![], vec![addr as u8], vec![1, 2]] {
            let m = M::Data { off: addr, data };
            check_msg(&m, st).map_err(|e| (json!({"msg": m}), e))?;
            wires.push(wire_of(&m));
        }
        // injectivity among everything that carries this address
        let n = wires.len();
        wires.sort();
        wires.dedup();
        st.eval();
        if wires.len() != n {
            return Err((json!({"address": addr}), format!("two different specific messages with address {addr:#x} share a wire encoding")));
        }
        if addr >= 0x100 {
            st.nontrivial_enumerated(n as u64);
        } else {
            st.nontrivial_enumerated(2); // the two short data chunks
        }
        Ok(())
    });
    ctx.part_done("all-addresses", true, json!("65536 addresses x (32 addressed messages + 3 short data chunks), pairwise-distinct encodings per address"));

    // data chunks: every length x a few offsets, deterministic contents ---------------------------
    par_range(ctx, "data-all-lengths", 256, |len, st| {
        for off in [0u16, 16, 0x1230, 0xFFF0] {
            for fill in [0u8, 0xFF, 0x5A] {
                let m = M::Data { off, data: (0..len as usize).map(|k| fill ^ (k as u8)).collect() };
                check_msg(&m, st).map_err(|e| (json!({"msg": m}), e))?;
                if len < 2 || len > 16 || off >= 0x100 {
                    st.nontrivial(h64(&m));
                }
            }
        }
        Ok(())
    });
    ctx.part_done("data-all-lengths", true, json!("data chunks of every length 0..=255 x 4 offsets x 3 fills"));

    // the message trip made from the destructor of a thread-local value while its thread shuts down (a connection object
    // that says goodbye when its thread ends), after the same thread made trips normally
    let teardown: Vec<M> = {
        let mut v = all_addressed(0x0203);
        v.push(M::Data { off: 0x10, data: (0..40).collect() });
        v.push(M::Data { off: 0, data: vec![] });
        v.push(M::Count(6));
        v
    };
    par_range(ctx, "trip-during-thread-teardown", teardown.len() as u64, |i, st| {
        let m = teardown[i as usize].clone();
        let (a, b) = (m.clone(), m.clone());
        crate::engine::in_thread_teardown(
            move || {
                let _ = check_msg(&a, &mut Stats::new());
            },
            move || check_msg(&b, &mut Stats::new()),
        )
        .map_err(|e| (json!({"msg": m}), format!("inside a thread-local destructor at thread exit: {e}")))?;
        st.eval();
        st.nontrivial_enumerated(1);
        Ok(())
    });
    ctx.part_done("trip-during-thread-teardown", true, json!({"messages": teardown.len(), "what": "every addressed message kind, two data chunks and a count make the wire trip inside a thread-local destructor at thread exit"}));

    run_generated(
        ctx,
        "data-generated",
        ctx.tier.pick(200_000, 4_000_000),
        || data_msg_strategy().prop_map(|msg| MsgCase { msg }),
        |c, st| {
            check_msg(&c.msg, st)?;
            if let M::Data { off, data } = &c.msg {
                if data.len() < 2 || data.len() > 16 || *off >= 0x100 {
                    st.nontrivial(h64(&c.msg));
                }
            }
            Ok(())
        },
    );

    crate::engine::with_logging(|| {
        run_generated(
            ctx,
            "data-generated+logging",
            ctx.tier.pick(20_000, 200_000),
            || data_msg_strategy().prop_map(|msg| MsgCase { msg }),
            |c, st| check_msg(&c.msg, st),
        );
    });

    run_generated(
        ctx,
        "pairs",
        ctx.tier.pick(100_000, 2_000_000),
        || {
            // pairs that are close to each other: same data different offset, prefix/extension, one byte changed,
            // and a data chunk against the addressed messages of the same address
            (data_msg_strategy(), any::<u16>(), any::<u8>(), 0u8..6).prop_map(|(a, x, y, kind)| {
                let (off, data) = match &a {
                    M::Data { off, data } => (*off, data.clone()),
                    _ => unreachable!(),
                };
                let b = match kind {
                    0 => M::Data { off: x, data: data.clone() },
                    1 => {
                        let mut d = data.clone();
                        if d.len() < 255 {
                            d.push(y);
                        } else {
                            d.pop();
                        }
                        M::Data { off, data: d }
                    }
                    2 => {
                        let mut d = data.clone();
                        if !d.is_empty() {
                            let i = x as usize % d.len();
                            d[i] ^= y | 1;
                        }
                        M::Data { off, data: d }
                    }
                    3 => {
                        let all = all_addressed(off);
                        all[x as usize % all.len()].clone()
                    }
                    4 => M::Count(off),
                    _ => M::Data { off, data: vec![] },
                };
                PairCase { a, b }
            })
        },
        |c, st| {
            check_pair(c, st)?;
            st.nontrivial(h64(&(&c.a, &c.b)));
            Ok(())
        },
    );
    let _ = ChunkCount(0);
}

pub fn replay(part: &str, case: &Value) -> Result<(), String> {
    let mut st = Stats::new();
    if part == "trip-during-thread-teardown" {
        let c: MsgCase = serde_json::from_value(case.clone()).map_err(|e| format!("bad case: {e}"))?;
        let (a, b) = (c.msg.clone(), c.msg);
        return crate::engine::in_thread_teardown(
            move || {
                let _ = check_msg(&a, &mut Stats::new());
            },
            move || check_msg(&b, &mut Stats::new()),
        );
    }
    if part == "pairs" {
        let c: PairCase = serde_json::from_value(case.clone()).map_err(|e| format!("bad case: {e}"))?;
        return check_pair(&c, &mut st);
    }
    if let Some(a) = case.get("address").and_then(|a| a.as_u64()) {
        let mut wires: Vec<Vec<u8>> = all_addressed(a as u16).iter().map(wire_of).collect();
        let n = wires.len();
        wires.sort();
        wires.dedup();
        return if wires.len() == n { Ok(()) } else { Err("shared encodings at that address".into()) };
    }
    let c: MsgCase = serde_json::from_value(case.clone()).map_err(|e| format!("bad case: {e}"))?;
    check_msg(&c.msg, &mut st)
}

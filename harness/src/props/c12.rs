//! C12 — a virtual sign never panics; C13 — the virtual sign implements the sign-side state machine.
//! Same generators and explorers; C12 judges only "returns normally" (+ the transfer clause),
//! C13 compares every reply / state / page list / sign type with the reference model.

use std::collections::HashMap;

use flipdot_core::{Address, Message, PageFlipStyle, SignBus};
use flipdot_testing::{VirtualSign, VirtualSignBus};
use proptest::prelude::*;
use serde::{Deserialize, Serialize};
use serde_json::{json, Value};

use crate::engine::{catch, h64, pick_idx, run_generated, Ctx, Stats};
use crate::oracle::page::total_len;
use crate::oracle::table::STATES;
use crate::oracle::vsign::*;
use crate::repr::M;

pub const RULE_C12: &str = "histories over the C12 alphabet (every message kind for the sign's own and a foreign address, sign-side and unknown messages, data chunks of lengths 0..=255 at offsets 0 and non-0, chunk counts equal/below/above the true count and 0xFFFF, configuration blocks: the 11 real ones, tiny custom sizes, zero width/height, unknown family, Max3000 widths summing over 255, random bytes; a run-length operator up to 70000 repetitions; whole-transfer macros with one injected fault) explored (a) breadth-first over (implementation state, model state) pairs for tiny sizes to a fixed point under bounds on buffered bytes / stored pages / counted chunks, (a') by directed transfers whose chunk count crosses the 16-bit boundary with 1, 2, 3 and 4 chunks per page, (b) by proptest random walks on single signs and on buses of 1..4 signs. Oracle: every process_message call returns (no unwind, Ok); after a count message in a receiving state the sign is in the corresponding failed or received state. Non-trivial = a history that enters a receiving state and contains an irregular element (lost/short/extra chunk, wrong count, non-standard configuration block, abandoned transfer); distinct by hash of the history (BFS: distinct states by construction)";
pub const RULE_C13: &str = "the same histories as C12 (BFS over (implementation state, model state) pairs to a fixed point under bounds for both flip styles and tiny sizes, directed transfers across the 16-bit chunk-counter boundary, random walks with whole-transfer macros on tiny and real sign types); after every delivered message the reply, state(), pages() (bytes and dimensions) and - where the statement determines it - sign_type() are compared with a reference sign-side state machine written from the statement. Non-trivial = a transition taken from a state reached through at least one abandoned or irregular transfer; distinct by hash of the history (BFS: distinct (implementation, model) states by construction)";
pub const ASSUMPTIONS_C12: &[&str] = &["panics are observed with catch_unwind around every process_message call; the harness is built with overflow checks on (as cargo test builds flipdot), the thorough tier also with checks off"];
pub const ASSUMPTIONS_C13: &[&str] = &[
    "the reference state machine in oracle/vsign.rs is a correct reading of the statement and of the State/Operation documentation",
    "where the statement is silent (sign_type() during/after a failed configuration or after a configuration of zero blocks; the configured size in that same corner; hidden buffers) nothing is compared",
    "which chunks a sign 'accepts' is taken from the documented behaviour of the virtual sign: while configuring, a 16-byte block at offset 0 whose family byte is 0x04 or 0x08; while receiving pixels, every chunk; PixelsComplete turns 'pixels received' into page-loaded (manual) or showing-pages (automatic)",
];

// ---------------------------------------------------------------------------------------
// history representation

#[derive(Serialize, Deserialize, Debug, Clone, PartialEq, Eq, Hash)]
pub enum Block {
    Real(u8),
    Raw(Vec<u8>),
}

impl Block {
    pub fn bytes(&self) -> Vec<u8> {
        match self {
            Block::Real(i) => BLOCKS[*i as usize % 11].to_vec(),
            Block::Raw(b) => b.clone(),
        }
    }
}

#[derive(Serialize, Deserialize, Debug, Clone, Copy, PartialEq, Eq, Hash)]
pub enum Fault {
    None,
    /// one chunk is lost
    Drop(u16),
    /// one chunk loses its last byte
    Short(u16),
    /// one chunk gets an extra byte
    Long(u16),
    /// one chunk is sent twice
    Extra(u16),
    /// announced count differs from the number of chunks sent
    CountDelta(i8),
    /// a chunk in the middle of a page claims offset 0
    EarlyOffset0(u16),
    /// the transfer is abandoned before the count message
    NoCount,
}

#[derive(Serialize, Deserialize, Debug, Clone, PartialEq, Eq, Hash)]
pub enum HOp {
    Msg(M),
    Repeat { msg: M, n: u32 },
    /// request + configuration block + count, addressed to `addr`
    Config { addr: u16, block: Block, fault: Fault },
    /// request + `pages` pages of the sign's current size + count (+ pixels complete), addressed to `addr`
    Pixels { addr: u16, pages: u8, seed: u64, fault: Fault, complete: bool },
    /// the first `steps` messages of: show, query, query, load-next, query, query (repeating)
    Flip { addr: u16, steps: u8 },
}

#[derive(Serialize, Deserialize, Debug, Clone, PartialEq, Eq, Hash)]
pub struct HistoryCase {
    pub addr: u16,
    pub automatic: bool,
    pub ops: Vec<HOp>,
}

fn flip(automatic: bool) -> PageFlipStyle {
    if automatic {
        PageFlipStyle::Automatic
    } else {
        PageFlipStyle::Manual
    }
}

/// expand a macro op into messages, given the configured size the model currently has
pub fn expand(op: &HOp, w: u32, h: u32) -> Vec<M> {
    match op {
        HOp::Msg(m) => vec![m.clone()],
        HOp::Repeat { msg, n } => vec![msg.clone(); (*n).min(8) as usize], // only used for display; interpreter handles n
        HOp::Config { addr, block, fault } => {
            let mut v = vec![M::Req(*addr, O_RECEIVE_CONFIG)];
            let b = block.bytes();
            let mut chunks: Vec<M> = vec![M::Data { off: 0, data: b }];
            let mut count: i64 = 1;
            apply_fault(&mut chunks, &mut count, *fault);
            v.extend(chunks);
            if !matches!(fault, Fault::NoCount) {
                v.push(M::Count(count.rem_euclid(65536) as u16));
            }
            v
        }
        HOp::Flip { addr, steps } => {
            let cycle = [
                M::Req(*addr, O_SHOW_LOADED_PAGE),
                M::Query(*addr),
                M::Query(*addr),
                M::Req(*addr, O_LOAD_NEXT_PAGE),
                M::Query(*addr),
                M::Query(*addr),
            ];
            (0..*steps as usize).map(|i| cycle[i % 6].clone()).collect()
        }
        HOp::Pixels { addr, pages, seed, fault, complete } => {
            let mut v = vec![M::Req(*addr, O_RECEIVE_PIXELS)];
            let size = if w > 0 && h > 0 { total_len(w, h).min(65536) } else { 16 };
            let mut chunks: Vec<M> = vec![];
            for p in 0..*pages {
                let bytes: Vec<u8> = (0..size).map(|i| h64(&(*seed, p, i as u64)) as u8).collect();
                for (i, ch) in bytes.chunks(16).enumerate() {
                    chunks.push(M::Data { off: (i * 16) as u16, data: ch.to_vec() });
                }
            }
            let mut count: i64 = chunks.len() as i64;
            apply_fault(&mut chunks, &mut count, *fault);
            v.extend(chunks);
            if !matches!(fault, Fault::NoCount) {
                v.push(M::Count(count.rem_euclid(65536) as u16));
                if *complete {
                    v.push(M::PixelsComplete(*addr));
                }
            }
            v
        }
    }
}

fn apply_fault(chunks: &mut Vec<M>, count: &mut i64, fault: Fault) {
    let n = chunks.len();
    match fault {
        Fault::None | Fault::NoCount => {}
        Fault::Drop(sel) => {
            if n > 0 {
                chunks.remove(pick_idx(sel, n));
            }
        }
        Fault::Short(sel) => {
            if n > 0 {
                if let M::Data { data, .. } = &mut chunks[pick_idx(sel, n)] {
                    data.pop();
                }
            }
        }
        Fault::Long(sel) => {
            if n > 0 {
                if let M::Data { data, .. } = &mut chunks[pick_idx(sel, n)] {
                    data.push(0x77);
                }
            }
        }
        Fault::Extra(sel) => {
            if n > 0 {
                let i = pick_idx(sel, n);
                let c = chunks[i].clone();
                chunks.insert(i, c);
                *count += 1; // the sender counts what it sent; the page is still malformed
            }
        }
        Fault::CountDelta(d) => *count += d as i64,
        Fault::EarlyOffset0(sel) => {
            if n > 1 {
                let i = 1 + pick_idx(sel, n - 1);
                if let M::Data { off, .. } = &mut chunks[i] {
                    *off = 0;
                }
            }
        }
    }
}

// ---------------------------------------------------------------------------------------
// one step of (implementation, model)

#[derive(Clone, Copy, PartialEq, Eq)]
pub enum Mode {
    C12,
    C13,
}

fn mode_id(mode: Mode) -> &'static str {
    match mode {
        Mode::C12 => "C12",
        Mode::C13 => "C13",
    }
}

/// a history that delivers hundreds of messages to one object in a row: announced on disk while it runs (see
/// engine::inflight) because a stack overflow or abort inside the sign cannot be caught in-process
pub fn heavy(ops: &[HOp]) -> bool {
    ops.iter().any(|o| matches!(o, HOp::Repeat { n, .. } if *n >= 100))
}

fn describe(m: &M) -> String {
    m.short()
}

fn compare_pages(sign: &VirtualSign<'_>, model: &SignModel) -> Result<(), String> {
    let pages = sign.pages();
    if pages.len() != model.pages.len() {
        return Err(format!("sign stores {} pages, the state machine {}", pages.len(), model.pages.len()));
    }
    for (i, (p, q)) in pages.iter().zip(model.pages.iter()).enumerate() {
        if p.width() != q.w || p.height() != q.h || p.as_bytes() != &q.bytes[..] {
            return Err(format!(
                "stored page {i} differs: sign has {}x{} ({} bytes), the state machine {}x{} ({} bytes){}",
                p.width(),
                p.height(),
                p.as_bytes().len(),
                q.w,
                q.h,
                q.bytes.len(),
                if p.as_bytes() != &q.bytes[..] { ", bytes differ" } else { "" }
            ));
        }
    }
    Ok(())
}

/// Deliver `m` to both; Err(message) on a violation of the property selected by `mode`.
pub fn step_pair(sign: &mut VirtualSign<'static>, model: &mut SignModel, m: &M, msg: &Message<'static>, mode: Mode, check_pages: bool) -> Result<(), String> {
    let was_state = model.state;
    let got = catch(|| sign.process_message(msg)).map_err(|p| {
        format!(
            "sig=panic:{}; process_message({}) panicked in model state {:?}: {p}",
            panic_site(&p),
            describe(m),
            STATES[was_state as usize].0
        )
    })?;
    let want = model.step(m);
    match mode {
        Mode::C12 => {
            if let M::Count(_) = m {
                let s = state_idx(sign.state());
                if was_state == S_CONFIG_IN_PROGRESS && !(s == S_CONFIG_RECEIVED || s == S_CONFIG_FAILED) {
                    return Err(format!("after the count message a configuring sign is in state {:?}, not received/failed", sign.state()));
                }
                if was_state == S_PIXELS_IN_PROGRESS && !(s == S_PIXELS_RECEIVED || s == S_PIXELS_FAILED) {
                    return Err(format!("after the count message a pixel-receiving sign is in state {:?}, not received/failed", sign.state()));
                }
            }
            Ok(())
        }
        Mode::C13 => {
            let got_m = got.as_ref().map(M::from_message);
            if got_m != want {
                return Err(format!(
                    "{} in state {:?}: sign replies {:?}, the state machine replies {:?}",
                    describe(m),
                    STATES[was_state as usize].0,
                    got_m.map(|x| x.short()),
                    want.map(|x| x.short())
                ));
            }
            if state_idx(sign.state()) != model.state {
                return Err(format!(
                    "{} in state {:?}: sign is now {:?}, the state machine {:?}",
                    describe(m),
                    STATES[was_state as usize].0,
                    sign.state(),
                    STATES[model.state as usize].0
                ));
            }
            if check_pages && model.dims_determined {
                compare_pages(sign, model).map_err(|e| format!("after {} in state {:?}: {e}", describe(m), STATES[was_state as usize].0))?;
            }
            if let TypeKnowledge::Is(t) = model.sign_type {
                let want_t = t.map(|i| TYPES[i].0);
                if sign.sign_type() != want_t {
                    return Err(format!(
                        "after {}: sign_type() is {:?}, the state machine says {:?}",
                        describe(m),
                        sign.sign_type(),
                        want_t
                    ));
                }
            }
            Ok(())
        }
    }
}

/// the file:line of a captured panic description ("msg @ file:line")
fn panic_site(p: &str) -> String {
    p.rsplit(" @ ").next().unwrap_or("").rsplit('/').next().unwrap_or("").to_string()
}

/// Run a whole history on a single sign.
pub fn check_history(c: &HistoryCase, mode: Mode, st: &mut Stats) -> Result<(), String> {
    let _announced = if heavy(&c.ops) { Some(crate::engine::inflight(mode_id(mode), "walk", || serde_json::to_value(c).unwrap_or_default())) } else { None };
    let mut sign = VirtualSign::new(Address(c.addr), flip(c.automatic));
    let mut model = SignModel::new(c.addr, c.automatic);
    let mut entered_receiving = false;
    let mut nontrivial_transitions = 0u64;
    let mut step_no = 0usize;
    for (i, op) in c.ops.iter().enumerate() {
        match op {
            HOp::Repeat { msg, n } => {
                let message = msg.to_message();
                for k in 0..*n {
                    let last = k + 1 == *n;
                    step_pair(&mut sign, &mut model, msg, &message, mode, last)
                        .map_err(|e| format!("op {i} (repetition {k} of {n}): {e}"))?;
                    st.eval();
                    if model.irregular {
                        nontrivial_transitions += 1;
                    }
                    entered_receiving |= model.receiving();
                }
                step_no += *n as usize;
            }
            other => {
                for m in expand(other, model.w, model.h) {
                    let message = m.to_message();
                    step_pair(&mut sign, &mut model, &m, &message, mode, true).map_err(|e| format!("op {i} (message {step_no}): {e}"))?;
                    st.eval();
                    step_no += 1;
                    if model.irregular {
                        nontrivial_transitions += 1;
                    }
                    entered_receiving |= model.receiving();
                }
            }
        }
    }
    // a copy made through the Clone trait (clone, and clone_from into a sign built with another address and flip style)
    // is the source from then on: same answers, same transitions
    {
        let mut other = VirtualSign::new(Address(c.addr ^ 0x5A5A), flip(!c.automatic));
        catch(|| other.clone_from(&sign)).map_err(|p| format!("clone_from of the sign after the history panicked: {p}"))?;
        for probe in [M::Hello(c.addr), M::Query(c.addr), M::PixelsComplete(c.addr), M::Hello(c.addr ^ 0x5A5A), M::Req(c.addr, O_START_RESET)] {
            let msg = probe.to_message();
            let (mut a, mut b, mut d) = (sign.clone(), other.clone(), sign.clone());
            let ra = catch(|| a.process_message(&msg).map(|r| M::from_message(&r))).map_err(|p| format!("sign panicked on {}: {p}", probe.short()))?;
            let rb = catch(|| b.process_message(&msg).map(|r| M::from_message(&r))).map_err(|p| format!("copy of the sign panicked on {}: {p}", probe.short()))?;
            let rd = catch(|| d.process_message(&msg).map(|r| M::from_message(&r))).map_err(|p| format!("clone of the sign panicked on {}: {p}", probe.short()))?;
            if mode == Mode::C13 && (ra != rb || ra != rd || a.state() != b.state() || a.state() != d.state() || a.pages() != b.pages() || a.sign_type() != b.sign_type()) {
                return Err(format!(
                    "after the history, {} is answered {:?} (then {:?}) by the sign but {:?} (then {:?}) by a copy made with clone_from into a sign built with another address / flip style",
                    probe.short(),
                    ra.as_ref().map(|m| m.short()),
                    a.state(),
                    rb.as_ref().map(|m| m.short()),
                    b.state()
                ));
            }
        }
        st.eval();
    }
    let nontrivial = entered_receiving && model.irregular;
    if nontrivial {
        st.nontrivial(h64(c));
        st.class("history:receiving+irregular");
    } else if entered_receiving {
        st.class("history:receiving-regular");
    } else {
        st.class("history:never-receiving");
    }
    st.class_n("transitions-after-irregular-transfer", nontrivial_transitions);
    st.class(&format!("final-state:{:?}", STATES[model.state as usize].0));
    if !model.pages.is_empty() {
        st.class("history:ends-with-stored-pages");
    }
    if st.want_sample() && nontrivial && c.ops.len() <= 12 {
        st.sample(json!({"addr": c.addr, "automatic": c.automatic, "ops": c.ops.iter().map(short_op).collect::<Vec<_>>(), "final_state": format!("{:?}", STATES[model.state as usize].0), "stored_pages": model.pages.len()}));
    }
    Ok(())
}

pub fn short_op(op: &HOp) -> String {
    match op {
        HOp::Msg(m) => m.short(),
        HOp::Repeat { msg, n } => format!("{} x{n}", msg.short()),
        HOp::Config { addr, block, fault } => format!(
            "ConfigTransfer({addr:#x},{},{fault:?})",
            match block {
                Block::Real(i) => format!("{:?}", TYPES[*i as usize % 11].0),
                Block::Raw(b) => format!("raw{:02X?}", &b[..b.len().min(10)]),
            }
        ),
        HOp::Pixels { addr, pages, fault, complete, .. } => format!("PixelTransfer({addr:#x},{pages} pages,{fault:?},complete={complete})"),
        HOp::Flip { addr, steps } => format!("FlipCycle({addr:#x},{steps} messages)"),
    }
}

// ---------------------------------------------------------------------------------------
// bus walks (C12 only): the same histories delivered through VirtualSignBus

#[derive(Serialize, Deserialize, Debug, Clone, PartialEq, Eq, Hash)]
pub struct BusHistoryCase {
    pub signs: Vec<(u16, bool)>,
    pub ops: Vec<HOp>,
}

pub fn check_bus_history(c: &BusHistoryCase, st: &mut Stats) -> Result<(), String> {
    let _announced = if heavy(&c.ops) { Some(crate::engine::inflight("C12", "bus-walk", || serde_json::to_value(c).unwrap_or_default())) } else { None };
    // distinct addresses are a documented precondition of a bus
    let mut seen = std::collections::HashSet::new();
    let signs: Vec<(u16, bool)> = c.signs.iter().filter(|(a, _)| seen.insert(*a)).cloned().collect();
    let mut bus = VirtualSignBus::new(signs.iter().map(|(a, f)| VirtualSign::new(Address(*a), flip(*f))));
    // models only to size the pixel transfers (dims follow the first sign)
    let mut models: Vec<SignModel> = signs.iter().map(|(a, f)| SignModel::new(*a, *f)).collect();
    let mut irregular = false;
    let mut receiving = false;
    for (i, op) in c.ops.iter().enumerate() {
        let (w, h) = match op {
            HOp::Pixels { addr, .. } => models.iter().find(|m| m.addr == *addr).map(|m| (m.w, m.h)).unwrap_or((0, 0)),
            _ => (0, 0),
        };
        let (msgs, reps): (Vec<M>, u32) = match op {
            HOp::Repeat { msg, n } => (vec![msg.clone()], *n),
            other => (expand(other, w, h), 1),
        };
        for m in &msgs {
            let message = m.to_message();
            for k in 0..reps {
                let r = catch(|| bus.process_message(message.clone()).map(|_| ()).map_err(|e| e.to_string()));
                st.eval();
                match r {
                    Ok(Ok(())) => {}
                    Ok(Err(e)) => return Err(format!("op {i}: VirtualSignBus::process_message({}) returned an error: {e}", m.short())),
                    Err(p) => {
                        return Err(format!(
                            "sig=panic:{}; op {i} (repetition {k}): VirtualSignBus::process_message({}) panicked: {p}",
                            panic_site(&p),
                            m.short()
                        ))
                    }
                }
                for md in models.iter_mut() {
                    let _ = md.step(m);
                    irregular |= md.irregular;
                    receiving |= md.receiving();
                }
            }
        }
    }
    if irregular && receiving {
        st.nontrivial(h64(c));
        st.class("bus-history:receiving+irregular");
    } else {
        st.class("bus-history:other");
    }
    Ok(())
}

// ---------------------------------------------------------------------------------------
// generators

pub fn tiny_block(w: u8, h: u8) -> Vec<u8> {
    // Horizon layout with an id no real sign uses: H at byte 5, W at byte 7
    vec![0x08, 0xEE, 0, 0, 0, h, 0, w, 1, 0, w, 0, 0, 0, 0, 0]
}

pub fn tiny_block_max3000(w1: u8, w2: u8, h: u8) -> Vec<u8> {
    vec![0x04, 0xEE, 0, 0, h, w1, w2, 0, 0, 8, 0, 0, 0, 0, 0, 0]
}

fn block_strategy() -> impl Strategy<Value = Block> {
    prop_oneof![
        6 => (0u8..11).prop_map(Block::Real),
        4 => Just(Block::Raw(tiny_block(12, 8))),
        2 => Just(Block::Raw(tiny_block_max3000(28, 0, 8))),
        1 => Just(Block::Raw(tiny_block(0, 8))),
        1 => Just(Block::Raw(tiny_block(12, 0))),
        1 => Just(Block::Raw(vec![0x0F, 0x99, 0, 0x0F, 9, 0x1C, 0x1C, 0, 0, 0x10, 0, 0, 0, 0, 0, 0])),
        1 => Just(Block::Raw(vec![0x04, 0x99, 0, 0, 0x10, 0x64, 0x64, 0x64, 0, 0x10, 0, 0, 0, 0, 0, 0])),
        1 => Just(Block::Raw(vec![0x04, 0x99, 0, 0, 0xFF, 0xFF, 0xFF, 0xFF, 0xFF, 0xFF, 0, 0, 0, 0, 0, 0])),
        1 => Just(Block::Raw(vec![0x08, 0x99, 0, 0, 0, 0xFF, 0, 0xFF, 0xFF, 0xFF, 0xFF, 0xFF, 0, 0, 0, 0])),
        2 => proptest::collection::vec(any::<u8>(), 16).prop_map(|mut b| { b[0] = if b[0] & 1 == 0 { 4 } else { 8 }; Block::Raw(b) }),
        1 => proptest::collection::vec(any::<u8>(), 16).prop_map(Block::Raw),
    ]
}

fn fault_strategy() -> impl Strategy<Value = Fault> {
    prop_oneof![
        8 => Just(Fault::None),
        1 => any::<u16>().prop_map(Fault::Drop),
        1 => any::<u16>().prop_map(Fault::Short),
        1 => any::<u16>().prop_map(Fault::Long),
        1 => any::<u16>().prop_map(Fault::Extra),
        2 => prop_oneof![Just(1i8), Just(-1i8), any::<i8>()].prop_map(Fault::CountDelta),
        1 => any::<u16>().prop_map(Fault::EarlyOffset0),
        1 => Just(Fault::NoCount),
    ]
}

fn addr_choice(own: u16, others: Vec<u16>) -> proptest::sample::Select<u16> {
    let mut v = vec![own; 6];
    v.extend(others);
    proptest::sample::select(v)
}

fn msg_strategy(own: u16, others: Vec<u16>) -> impl Strategy<Value = M> {
    let a = addr_choice(own, others);
    let data_payload = prop_oneof![
        4 => block_strategy().prop_map(|b| b.bytes()),
        4 => Just(vec![0xABu8; 16]),
        2 => proptest::sample::select(vec![0usize, 1, 15, 17, 32, 255]).prop_flat_map(|n| proptest::collection::vec(any::<u8>(), n)),
        // truncated / over-long blocks that start like a configuration block
        2 => (proptest::sample::select(vec![0x04u8, 0x08]), proptest::sample::select(vec![1usize, 2, 5, 7, 8, 9, 15, 17, 255])).prop_map(|(f, n)| { let mut v = vec![0x10u8; n]; v[0] = f; v }),
        1 => (0usize..=255).prop_flat_map(|n| proptest::collection::vec(any::<u8>(), n)),
    ];
    prop_oneof![
        3 => a.clone().prop_map(M::Hello),
        3 => a.clone().prop_map(M::Query),
        1 => a.clone().prop_map(M::Goodbye),
        2 => a.clone().prop_map(M::PixelsComplete),
        8 => (a.clone(), 0u8..6).prop_map(|(a, o)| M::Req(a, o)),
        1 => (a.clone(), 0u8..13).prop_map(|(a, s)| M::Report(a, s)),
        1 => (a.clone(), 0u8..6).prop_map(|(a, o)| M::Ack(a, o)),
        // hand-built unknown-frame wrappers of every type (also the types of the specific messages) with 0..3 data bytes
        1 => (a.clone(), prop_oneof![2 => 0u8..=7, 1 => 7u8..=255], proptest::collection::vec(any::<u8>(), 0..4)).prop_map(|(addr, ty, data)| M::Unknown { addr, ty, data }),
        8 => (proptest::sample::select(vec![0u16, 0, 16, 16, 32, 0xFFF0, 1]), data_payload).prop_map(|(off, data)| M::Data { off, data }),
        4 => prop_oneof![4 => 0u16..8, 1 => Just(0xFFFFu16), 1 => any::<u16>()].prop_map(M::Count),
    ]
}

fn hop_strategy(own: u16, others: Vec<u16>) -> impl Strategy<Value = HOp> {
    let a = addr_choice(own, others.clone());
    prop_oneof![
        12 => msg_strategy(own, others.clone()).prop_map(HOp::Msg),
        3 => (a.clone(), block_strategy(), fault_strategy()).prop_map(|(addr, block, fault)| HOp::Config { addr, block, fault }),
        4 => (a.clone(), 0u8..4, any::<u64>(), fault_strategy(), any::<bool>())
            .prop_map(|(addr, pages, seed, fault, complete)| HOp::Pixels { addr, pages, seed, fault, complete }),
        2 => (a.clone(), 1u8..14).prop_map(|(addr, steps)| HOp::Flip { addr, steps }),
        1 => (msg_strategy(own, others), prop_oneof![6 => 2u32..40, 1 => Just(65535u32), 1 => Just(65536u32), 1 => 65537u32..70000])
            .prop_map(|(msg, n)| HOp::Repeat { msg, n }),
    ]
}

pub fn history_strategy(max_ops: usize) -> impl Strategy<Value = HistoryCase> {
    (proptest::sample::select(vec![0u16, 3, 0x21, 0x100, 0x2100, 0xFFFF]), any::<bool>())
        .prop_flat_map(move |(addr, automatic)| {
            let others = vec![addr.wrapping_add(1), addr.swap_bytes() ^ 0x0100];
            (Just((addr, automatic)), proptest::collection::vec(hop_strategy(addr, others), 1..max_ops))
        })
        .prop_map(|((addr, automatic), ops)| HistoryCase { addr, automatic, ops })
}

fn bus_history_strategy(max_ops: usize) -> impl Strategy<Value = BusHistoryCase> {
    proptest::sample::subsequence(vec![0u16, 1, 3, 0x0300, 0xFFFF, 0x21], 1..=4)
        .prop_flat_map(move |addrs| {
            let n = addrs.len();
            let own = addrs[0];
            let mut others = addrs[1..].to_vec();
            others.push(0x7777); // nobody
            (
                Just(addrs),
                proptest::collection::vec(any::<bool>(), n),
                proptest::collection::vec(hop_strategy(own, others), 1..max_ops),
            )
        })
        .prop_map(|(addrs, flips, ops)| BusHistoryCase { signs: addrs.into_iter().zip(flips).collect(), ops })
}

// ---------------------------------------------------------------------------------------
// breadth-first search over (implementation state, model state)

struct Node {
    sign: VirtualSign<'static>,
    model: SignModel,
    id: u64,
}

pub struct BfsBounds {
    pub max_pages: usize,
    pub max_pending: usize,
    pub max_chunks: u16,
    pub max_states: usize,
}

pub fn bfs_alphabet(own: u16, foreign: u16, rich: bool) -> Vec<M> {
    let mut v = vec![M::Hello(own), M::Query(own), M::Goodbye(own), M::PixelsComplete(own)];
    for o in 0..6 {
        v.push(M::Req(own, o));
    }
    v.extend([
        M::Hello(foreign),
        M::Query(foreign),
        M::Goodbye(foreign),
        M::PixelsComplete(foreign),
        M::Req(foreign, O_START_RESET),
        M::Req(foreign, O_RECEIVE_PIXELS),
        M::Req(foreign, O_RECEIVE_CONFIG),
        M::Report(own, S_UNCONFIGURED),
        M::Ack(own, O_START_RESET),
        M::Unknown { addr: own, ty: 7, data: vec![1] },
        M::Unknown { addr: own, ty: 2, data: vec![] },
    ]);
    let tiny = tiny_block(12, 8); // 12x8: 16 data bytes -> one 16-byte chunk per page
    let two = tiny_block_max3000(20, 8, 8); // 28x8: 32 bytes -> two chunks per page
    let mut payloads: Vec<Vec<u8>> = vec![tiny, two, vec![0xAB; 16], vec![0xCD; 15], vec![0xEF; 17], vec![]];
    if rich {
        payloads.push(tiny_block(0, 8));
        payloads.push(vec![0x0F, 0x99, 0, 0x0F, 9, 0x1C, 0x1C, 0, 0, 0x10, 0, 0, 0, 0, 0, 0]);
        payloads.push(vec![0x04, 0x99, 0, 0, 0x10, 0x64, 0x64, 0x64, 0, 0x10, 0, 0, 0, 0, 0, 0]);
        payloads.push(BLOCKS[5].to_vec());
    }
    for p in &payloads {
        for off in [0u16, 16] {
            v.push(M::Data { off, data: p.clone() });
        }
    }
    // truncated blocks that start like a configuration block (offset 0 only)
    v.push(M::Data { off: 0, data: vec![0x04] });
    v.push(M::Data { off: 0, data: vec![0x08, 0xEE, 0, 0, 0, 8, 0] });
    if !rich {
        // configuration-only extras at offset 0 (as pixel data they are just another 16-byte chunk)
        v.push(M::Data { off: 0, data: tiny_block(0, 8) });
        v.push(M::Data { off: 0, data: vec![0x0F, 0x99, 0, 0x0F, 9, 0x1C, 0x1C, 0, 0, 0x10, 0, 0, 0, 0, 0, 0] });
        v.push(M::Data { off: 0, data: vec![0x04, 0x99, 0, 0, 0x10, 0x64, 0x64, 0x64, 0, 0x10, 0, 0, 0, 0, 0, 0] });
    }
    for n in [0u16, 1, 2, 3, 4, 0xFFFF] {
        v.push(M::Count(n));
    }
    v
}

pub struct BfsResult {
    pub states: u64,
    pub transitions: u64,
    pub pruned: u64,
    pub fixed_point: bool,
    pub depth: u32,
    pub nontrivial_transitions: u64,
    pub coverage: std::collections::BTreeMap<String, u64>,
}

fn node_key(sign: &VirtualSign<'static>, model: &SignModel) -> u64 {
    h64(&(sign, model))
}

fn msg_class(m: &M, own: u16) -> &'static str {
    match m {
        M::Hello(a) | M::Query(a) if *a == own => "query",
        M::Req(a, _) if *a == own => "request",
        M::Goodbye(a) if *a == own => "goodbye",
        M::PixelsComplete(a) if *a == own => "pixels-complete",
        M::Data { .. } => "data",
        M::Count(_) => "count",
        _ => "foreign-or-sign-side",
    }
}

/// Returns Err((history, message)) with a shortest history on a violation.
pub fn bfs(ctx: &Ctx, own: u16, automatic: bool, alphabet: &[M], bounds: &BfsBounds, mode: Mode) -> Result<BfsResult, (HistoryCase, String)> {
    let messages: Vec<Message<'static>> = alphabet.iter().map(|m| m.to_message()).collect();
    let root_sign = VirtualSign::new(Address(own), flip(automatic));
    let root_model = SignModel::new(own, automatic);
    let root_id = node_key(&root_sign, &root_model);
    let mut visited: HashMap<u64, (u64, u16)> = HashMap::new();
    visited.insert(root_id, (root_id, u16::MAX));
    let mut frontier = vec![Node { sign: root_sign, model: root_model, id: root_id }];
    let mut res = BfsResult {
        states: 1,
        transitions: 0,
        pruned: 0,
        fixed_point: false,
        depth: 0,
        nontrivial_transitions: 0,
        coverage: Default::default(),
    };
    let history_of = |visited: &HashMap<u64, (u64, u16)>, mut id: u64, last: Option<u16>| -> HistoryCase {
        let mut ops: Vec<HOp> = vec![];
        if let Some(l) = last {
            ops.push(HOp::Msg(alphabet[l as usize].clone()));
        }
        while let Some(&(parent, op)) = visited.get(&id) {
            if op == u16::MAX {
                break;
            }
            ops.push(HOp::Msg(alphabet[op as usize].clone()));
            id = parent;
        }
        ops.reverse();
        HistoryCase { addr: own, automatic, ops }
    };

    while !frontier.is_empty() {
        if ctx.stopped() {
            break;
        }
        res.depth += 1;
        let workers = ctx.workers.min(frontier.len()).max(1);
        let chunk = (frontier.len() + workers - 1) / workers;
        type Out = (Vec<(Node, u64, u16)>, u64, u64, u64, std::collections::BTreeMap<String, u64>, Option<(u64, u16, String)>);
        let outs: Vec<Out> = std::thread::scope(|sc| {
            let handles: Vec<_> = frontier
                .chunks(chunk)
                .map(|part| {
                    let messages = &messages;
                    sc.spawn(move || {
                        let mut succ: Vec<(Node, u64, u16)> = vec![];
                        let mut transitions = 0u64;
                        let mut pruned = 0u64;
                        let mut nontrivial = 0u64;
                        let mut cov: std::collections::BTreeMap<String, u64> = Default::default();
                        for node in part {
                            for (oi, m) in alphabet.iter().enumerate() {
                                let mut sign = node.sign.clone();
                                let mut model = node.model.clone();
                                transitions += 1;
                                if node.model.irregular {
                                    nontrivial += 1;
                                }
                                *cov.entry(format!("{:?} x {}", STATES[node.model.state as usize].0, msg_class(m, own))).or_insert(0) += 1;
                                if let Err(e) = step_pair(&mut sign, &mut model, m, &messages[oi], mode, true) {
                                    return (succ, transitions, pruned, nontrivial, cov, Some((node.id, oi as u16, e)));
                                }
                                if model.pages.len() > bounds.max_pages || model.pending.len() > bounds.max_pending || model.chunks > bounds.max_chunks {
                                    pruned += 1;
                                    continue;
                                }
                                let id = node_key(&sign, &model);
                                if id != node.id {
                                    succ.push((Node { sign, model, id }, node.id, oi as u16));
                                }
                            }
                        }
                        (succ, transitions, pruned, nontrivial, cov, None)
                    })
                })
                .collect();
            handles.into_iter().map(|h| h.join().expect("bfs worker")).collect()
        });
        let mut next: Vec<Node> = vec![];
        let mut violation: Option<(u64, u16, String)> = None;
        for (succ, t, p, nt, cov, viol) in outs {
            res.transitions += t;
            res.pruned += p;
            res.nontrivial_transitions += nt;
            for (k, v) in cov {
                *res.coverage.entry(k).or_insert(0) += v;
            }
            if violation.is_none() {
                violation = viol;
            }
            for (node, parent, op) in succ {
                if !visited.contains_key(&node.id) {
                    visited.insert(node.id, (parent, op));
                    next.push(node);
                }
            }
        }
        if let Some((id, op, msg)) = violation {
            return Err((history_of(&visited, id, Some(op)), msg));
        }
        res.states = visited.len() as u64;
        if visited.len() > bounds.max_states {
            frontier = next;
            let _ = frontier;
            return Ok(res); // budget exhausted before the fixed point
        }
        frontier = next;
    }
    res.fixed_point = !ctx.stopped();
    Ok(res)
}

// ---------------------------------------------------------------------------------------

fn run_bfs_part(ctx: &Ctx, name: &str, own: u16, automatic: bool, rich: bool, bounds: BfsBounds, mode: Mode) {
    if ctx.stopped() {
        return;
    }
    let alphabet = bfs_alphabet(own, own ^ 0x0100 ^ 1, rich);
    match bfs(ctx, own, automatic, &alphabet, &bounds, mode) {
        Ok(r) => {
            let mut st = Stats::new();
            st.evals(r.transitions);
            // distinct (implementation, model) states reached through an irregular transfer are counted through
            // their transitions; distinct by construction (each state expanded once)
            st.nontrivial_enumerated(r.nontrivial_transitions);
            st.class_n("bfs-transitions", r.transitions);
            st.class_n("bfs-transitions-from-irregular-states", r.nontrivial_transitions);
            ctx.merge(name, st);
            ctx.extra_add("states", r.states);
            ctx.extra_add("transitions", r.transitions);
            ctx.part_done(
                name,
                r.fixed_point,
                json!({"own": own, "automatic": automatic, "alphabet": alphabet.len(), "states": r.states, "transitions": r.transitions, "pruned_by_bounds": r.pruned,
                       "fixed_point_under_bounds": r.fixed_point, "depth": r.depth,
                       "bounds": {"stored_pages": bounds.max_pages, "buffered_bytes": bounds.max_pending, "counted_chunks": bounds.max_chunks},
                       "state_x_message_class": r.coverage}),
            );
            if !r.fixed_point && !ctx.stopped() {
                ctx.inconclusive(format!("{name}: state budget {} exhausted before the fixed point", bounds.max_states));
            }
        }
        Err((history, msg)) => {
            ctx.fail(name, serde_json::to_value(&history).unwrap(), msg);
        }
    }
}

/// Transfers whose chunk count passes the 16-bit boundary: `pages` complete pages of the configured size in one
/// pixel transfer (so that page starts and counter wrap-arounds coincide in every possible way), then the count.
#[derive(Serialize, Deserialize, Debug, Clone, PartialEq, Eq, Hash)]
pub struct DeepCase {
    pub block: Block,
    pub pages: u32,
    /// announced count = (chunks sent + delta) mod 65536
    pub count_delta: i32,
    pub automatic: bool,
    /// instead of complete pages: one uninterrupted run of `n` chunks of `len` bytes whose offsets continue where the
    /// previous chunk ended (16-bit, wrapping), as a sender numbering a very long item would
    #[serde(default)]
    pub in_sequence: Option<(u8, u32)>,
    /// with `in_sequence`: every chunk after the first carries this same non-zero offset (a sender that never numbers
    /// its chunks), so the sign never sees a second offset 0 and its buffer only grows
    #[serde(default)]
    pub fixed_offset: Option<u16>,
}

pub fn check_deep(c: &DeepCase, mode: Mode, st: &mut Stats) -> Result<(), String> {
    let _announced = crate::engine::inflight(mode_id(mode), "deep-counter", || serde_json::to_value(c).unwrap_or_default());
    let addr = 0x0102u16;
    let mut sign = VirtualSign::new(Address(addr), flip(c.automatic));
    let mut model = SignModel::new(addr, c.automatic);
    let deliver = |sign: &mut VirtualSign<'static>, model: &mut SignModel, m: M, check_pages: bool, st: &mut Stats| -> Result<(), String> {
        let msg = m.to_message();
        st.eval();
        step_pair(sign, model, &m, &msg, mode, check_pages)
    };
    deliver(&mut sign, &mut model, M::Req(addr, O_RECEIVE_CONFIG), true, st)?;
    deliver(&mut sign, &mut model, M::Data { off: 0, data: c.block.bytes() }, true, st)?;
    deliver(&mut sign, &mut model, M::Count(1), true, st)?;
    deliver(&mut sign, &mut model, M::Req(addr, O_RECEIVE_PIXELS), true, st)?;
    let size = if model.w > 0 && model.h > 0 { total_len(model.w, model.h) } else { 16 };
    let mut sent: u64 = 0;
    if let Some((len, n)) = c.in_sequence {
        let mut off: u16 = 0;
        for k in 0..n {
            let data: Vec<u8> = (0..len as usize).map(|i| (k as u8).wrapping_add(i as u8)).collect();
            deliver(&mut sign, &mut model, M::Data { off, data }, k % 1024 == 1023, st).map_err(|e| format!("in-sequence chunk {k} at offset {off}: {e}"))?;
            off = match c.fixed_offset {
                Some(o) => o,
                None => off.wrapping_add(len as u16),
            };
            sent += 1;
        }
    }
    for p in 0..if c.in_sequence.is_some() { 0 } else { c.pages } {
        let mut off = 0usize;
        while off < size {
            let n = (size - off).min(16);
            let data: Vec<u8> = (0..n).map(|i| (p as u8) ^ ((off + i) as u8)).collect();
            // compare the page lists only now and then (they grow to tens of thousands of pages)
            let check = p % 8192 == 8191 && off == 0;
            deliver(&mut sign, &mut model, M::Data { off: off as u16, data }, check, st).map_err(|e| format!("page {p}, offset {off}: {e}"))?;
            off += n;
            sent += 1;
        }
    }
    let announced = ((sent as i64 + c.count_delta as i64).rem_euclid(65536)) as u16;
    deliver(&mut sign, &mut model, M::Count(announced), true, st).map_err(|e| format!("after {sent} chunks in {} pages: {e}", c.pages))?;
    deliver(&mut sign, &mut model, M::PixelsComplete(addr), true, st)?;
    deliver(&mut sign, &mut model, M::Query(addr), true, st)?;
    st.nontrivial(h64(c));
    st.class("deep-counter-transfer");
    if st.want_sample() {
        st.sample(json!({"block": short_op(&HOp::Config { addr, block: c.block.clone(), fault: Fault::None }), "pages": c.pages, "chunks": sent, "announced": announced, "final_state": format!("{:?}", STATES[model.state as usize].0), "stored_pages": model.pages.len()}));
    }
    Ok(())
}

fn run_deep(ctx: &Ctx, mode: Mode) {
    // (block, chunks per page): one-chunk and two-chunk tiny pages, 23x10 (4 chunks), 30x7 (3 chunks: never divides 65536)
    let blocks: Vec<(Block, u32)> = vec![
        (Block::Raw(tiny_block(12, 8)), 1),
        (Block::Raw(tiny_block_max3000(20, 8, 8)), 2),
        (Block::Real(4), 4),
        (Block::Real(5), 3),
    ];
    let mut cases = vec![];
    for (b, cpp) in &blocks {
        let base = 65536 / cpp;
        for d in [-1i64, 0, 1, 2] {
            let pages = (base as i64 + d) as u32;
            for count_delta in [0i32, 1] {
                cases.push(DeepCase { block: b.clone(), pages, count_delta, automatic: d % 2 == 0, in_sequence: None, fixed_offset: None });
            }
        }
    }
    for (len, n) in [(16u8, 4097u32), (16, 4200), (255, 258), (255, 300), (17, 3900), (1, 65537), (0, 300)] {
        for b in [Block::Raw(tiny_block(12, 8)), Block::Real(0)] {
            cases.push(DeepCase { block: b, pages: 0, count_delta: (len % 2) as i32, automatic: false, in_sequence: Some((len, n)), fixed_offset: None });
        }
    }
    // a buffer that only grows: one offset-0 chunk, then n-1 chunks that all carry offset 16 - around 64 KiB of buffered
    // data, so that a buffer that is capped, cleared or wrapped there leaves a tail that looks like a page
    for n in 4090u32..=4110 {
        for b in [Block::Raw(tiny_block(12, 8)), Block::Raw(tiny_block_max3000(20, 8, 8)), Block::Real(5)] {
            cases.push(DeepCase { block: b, pages: 0, count_delta: 0, automatic: n % 2 == 0, in_sequence: Some((16, n)), fixed_offset: Some(16) });
        }
    }
    for (len, n) in [(255u8, 257u32), (255, 258), (255, 259), (128, 513), (128, 514)] {
        cases.push(DeepCase { block: Block::Raw(tiny_block(12, 8)), pages: 0, count_delta: 0, automatic: false, in_sequence: Some((len, n)), fixed_offset: Some(0x0100) });
    }
    crate::engine::par_range(ctx, "deep-counter", cases.len() as u64, |i, st| {
        let c = &cases[i as usize];
        check_deep(c, mode, st).map_err(|m| (serde_json::to_value(c).unwrap(), m))
    });
    ctx.part_done("deep-counter", true, json!({"cases": cases.len(), "what": "pixel transfers of 65536/cpp - 1 .. + 2 complete pages for 1, 2, 3 and 4 chunks per page, announced count right / off by one; uninterrupted in-sequence runs whose running offset passes 0xFFFF (16-, 17-, 255-, 1- and 0-byte chunks); runs of 4090..=4110 chunks that all carry the same non-zero offset (the buffer passes 64 KiB without ever seeing a second offset 0)"}));
}

pub fn run(ctx: &Ctx, c13: bool) {
    let mode = if c13 { Mode::C13 } else { Mode::C12 };
    let thorough = ctx.tier == crate::engine::Tier::Thorough;
    // (a) BFS to a fixed point, both flip styles
    for automatic in [false, true] {
        run_bfs_part(
            ctx,
            if automatic { "bfs-tiny-automatic" } else { "bfs-tiny-manual" },
            5,
            automatic,
            false,
            BfsBounds {
                max_pages: 3,
                max_pending: if thorough { 82 } else { 66 },
                max_chunks: if thorough { 6 } else { 5 },
                max_states: 30_000_000,
            },
            mode,
        );
    }
    if thorough {
        run_bfs_part(
            ctx,
            "bfs-rich-manual",
            0x0100,
            false,
            true,
            BfsBounds { max_pages: 2, max_pending: 49, max_chunks: 4, max_states: 30_000_000 },
            mode,
        );
    }

    // (a') transfers across the 16-bit chunk-counter boundary
    run_deep(ctx, mode);

    // (a'') every height 1..=255 (both block layouts, three widths): one complete page, then transfers that lose their last
    // chunk, their first chunk, a byte of the last chunk, and a complete one again - where the implementation's idea of
    // a page's length and the page type's differ for some height, a short transfer of just that length is the witness
    crate::engine::par_range(ctx, "every-height-short-transfers", 255 * 6, |i, st| {
        let h = (i / 6 + 1) as u8;
        let w = [1u8, 8, 16][(i % 3) as usize];
        let block = if (i / 3) % 2 == 0 { tiny_block(w, h) } else { tiny_block_max3000(w, 0, h) };
        let ops = vec![
            HOp::Msg(M::Hello(9)),
            HOp::Config { addr: 9, block: Block::Raw(block), fault: Fault::None },
            HOp::Pixels { addr: 9, pages: 1, seed: i, fault: Fault::None, complete: true },
            HOp::Pixels { addr: 9, pages: 1, seed: i + 1, fault: Fault::Drop(0xFFFF), complete: true },
            HOp::Msg(M::Query(9)),
            HOp::Pixels { addr: 9, pages: 1, seed: i + 2, fault: Fault::Drop(0), complete: true },
            HOp::Pixels { addr: 9, pages: 2, seed: i + 3, fault: Fault::Short(0xFFFF), complete: true },
            HOp::Pixels { addr: 9, pages: 2, seed: i + 4, fault: Fault::Drop(0xFFFF), complete: false },
            HOp::Msg(M::Query(9)),
            HOp::Pixels { addr: 9, pages: 1, seed: i + 5, fault: Fault::None, complete: true },
            HOp::Flip { addr: 9, steps: 6 },
        ];
        let c = HistoryCase { addr: 9, automatic: i % 2 == 1, ops };
        check_history(&c, mode, st).map_err(|m| (serde_json::to_value(&c).unwrap(), m))?;
        st.nontrivial_enumerated(1);
        Ok(())
    });
    ctx.part_done("every-height-short-transfers", true, json!("heights 1..=255 x widths {1,8,16} x {Horizon, Max3000} block layout: complete / last chunk lost / first chunk lost / short last chunk / complete"));

    // (a''') many pages in ONE transfer (21 .. 255 pages with arbitrary page numbers, on one- and two-chunk pages and a real
    // type): whatever the sign does with its stored pages when the transfer completes
    crate::engine::par_range(ctx, "many-pages-one-transfer", 60, |i, st| {
        let pages = [21u8, 32, 40, 64, 128, 255][(i % 6) as usize];
        let block = match (i / 6) % 3 {
            0 => Block::Raw(tiny_block(12, 8)),
            1 => Block::Raw(tiny_block_max3000(20, 8, 8)),
            _ => Block::Real(5),
        };
        let ops = vec![
            HOp::Config { addr: 7, block, fault: Fault::None },
            HOp::Pixels { addr: 7, pages, seed: 1000 + i, fault: Fault::None, complete: true },
            HOp::Flip { addr: 7, steps: 7 },
            HOp::Pixels { addr: 7, pages, seed: 2000 + i, fault: if i % 2 == 0 { Fault::Extra(0x8000) } else { Fault::CountDelta(-1) }, complete: true },
            HOp::Msg(M::Query(7)),
        ];
        let c = HistoryCase { addr: 7, automatic: i % 2 == 1, ops };
        check_history(&c, mode, st).map_err(|m| (serde_json::to_value(&c).unwrap(), m))?;
        st.nontrivial_enumerated(1);
        Ok(())
    });
    ctx.part_done("many-pages-one-transfer", true, json!("transfers of 21..255 pages with pseudo-random page numbers, three page sizes, both flip styles, followed by flips and an irregular second transfer"));

    // (b) random walks on a single sign
    run_generated(ctx, "walk", ctx.tier.pick(30_000, 1_000_000), || history_strategy(60), |c, st| check_history(c, mode, st));
    run_generated(ctx, "walk-long", ctx.tier.pick(600, 20_000), || history_strategy(400), |c, st| check_history(c, mode, st));

    crate::engine::with_logging(|| {
        run_generated(ctx, "walk+logging", ctx.tier.pick(6_000, 200_000), || history_strategy(60), |c, st| check_history(c, mode, st));
    });

    // (c) the same alphabet through a bus of 1..4 signs (C12: returns normally)
    if !c13 {
        run_generated(ctx, "bus-walk", ctx.tier.pick(10_000, 300_000), || bus_history_strategy(60), |c, st| check_bus_history(c, st));
    }
}

pub fn replay(part: &str, case: &Value, c13: bool) -> Result<(), String> {
    let mode = if c13 { Mode::C13 } else { Mode::C12 };
    let mut st = Stats::new();
    if part == "bus-walk" {
        let c: BusHistoryCase = serde_json::from_value(case.clone()).map_err(|e| format!("bad case: {e}"))?;
        return check_bus_history(&c, &mut st);
    }
    if part == "walk+logging" {
        let c: HistoryCase = serde_json::from_value(case.clone()).map_err(|e| format!("bad case: {e}"))?;
        return crate::engine::with_logging(|| check_history(&c, mode, &mut st));
    }
    if part == "deep-counter" {
        let c: DeepCase = serde_json::from_value(case.clone()).map_err(|e| format!("bad case: {e}"))?;
        return check_deep(&c, mode, &mut st);
    }
    let c: HistoryCase = serde_json::from_value(case.clone()).map_err(|e| format!("bad case: {e}"))?;
    check_history(&c, mode, &mut st)
}

/// the C12 operation alphabet, reused by C08 to produce random prior traffic
pub fn hop_for_c08(own: u16, others: Vec<u16>) -> impl Strategy<Value = HOp> {
    hop_strategy(own, others)
}

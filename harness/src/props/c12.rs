//! stub
use serde_json::Value;
use crate::engine::Ctx;
pub const RULE_C12: &str = "";
pub const RULE_C13: &str = "";
pub const ASSUMPTIONS_C12: &[&str] = &[];
pub const ASSUMPTIONS_C13: &[&str] = &[];
pub fn run(_ctx: &Ctx, _inv: bool) {}
pub fn replay(_part: &str, _case: &Value, _inv: bool) -> Result<(), String> { Err("not implemented".into()) }

//! C15 — reading consumes exactly one line; writing delivers the whole frame.

use std::io;

use flipdot_core::{Address, Data, Frame, FrameError, MsgType};
use proptest::prelude::*;
use serde::{Deserialize, Serialize};
use serde_json::{json, Value};

use crate::engine::{catch, h64, par_range, run_generated, show_bytes, Ctx, Stats};
use crate::io::port::{Exhausted, PortState, ReadStep, TestPort, WriteStep};
use crate::oracle::hex::ref_encode;
use crate::props::c01::{addr_strategy, byte_strategy, FrameCase};

pub const RULE: &str = "read: streams of 1..5 lines (valid frames, deliberately invalid lines, valid frames with junk before/after them or a second frame on the same line; CRLF, bare LF or - for the last - no terminator) followed by 0..20 arbitrary trailing bytes (frames of 0..19 data bytes mostly, 127/254/255 at a lower rate, plus a sweep of three back-to-back frames of every data length 0..=255), served by an instrumented reader that fragments the stream (every composition of the shortest stream of 14 bytes exhaustively, generated fragmentations beyond), injects ErrorKind::Interrupted at generated call indices, a hard error (Other/TimedOut/WouldBlock/UnexpectedEof) at every call index in turn, and early EOF or a timeout when the stream ends; Frame::read is called until the stream is used up and each call must consume exactly up to and including the next line feed (cursor measured inside the reader) and return what decoding that line returns; a hard error must surface as FrameError::Io. write: frames written to an instrumented sink (implementing only write(), or its own gathering write_vectored) that accepts 1..k bytes per call, reports Interrupted, Ok(0) or a hard error at generated / every call index: success must deliver exactly the CRLF encoding, failure a prefix and FrameError::Io. Non-trivial = a stream with >= 2 lines and a non-trivial fragmentation, or any injected fault; distinct by hash of the case";
pub const ASSUMPTIONS: &[&str] = &[
    "\"decoding that line\" is Frame::from_bytes on the bytes the reader handed out (the decoder itself is C03's subject)",
    "verdicts are derived from the calls the implementation actually made (recorded by the reader/sink), not from a predicted call pattern",
];

#[derive(Serialize, Deserialize, Debug, Clone, PartialEq, Eq, Hash)]
pub enum IoKind {
    Other,
    TimedOut,
    WouldBlock,
    UnexpectedEof,
    BrokenPipe,
}

impl IoKind {
    fn kind(&self) -> io::ErrorKind {
        match self {
            IoKind::Other => io::ErrorKind::Other,
            IoKind::TimedOut => io::ErrorKind::TimedOut,
            IoKind::WouldBlock => io::ErrorKind::WouldBlock,
            IoKind::UnexpectedEof => io::ErrorKind::UnexpectedEof,
            IoKind::BrokenPipe => io::ErrorKind::BrokenPipe,
        }
    }
}

#[derive(Serialize, Deserialize, Debug, Clone, PartialEq, Eq, Hash)]
pub enum RStep {
    Serve(usize),
    Interrupted,
    Error(IoKind),
}

#[derive(Serialize, Deserialize, Debug, Clone, PartialEq, Eq, Hash)]
pub struct ReadCase {
    pub stream: Vec<u8>,
    pub script: Vec<RStep>,
    pub timeout_at_end: bool,
}

fn same_decode(a: &Result<Frame<'static>, FrameError>, b: &Result<Frame<'static>, FrameError>) -> bool {
    match (a, b) {
        (Ok(x), Ok(y)) => x == y,
        (Err(FrameError::InvalidFrame { .. }), Err(FrameError::InvalidFrame { .. })) => true,
        (
            Err(FrameError::FrameDataMismatch { expected: e1, actual: a1, .. }),
            Err(FrameError::FrameDataMismatch { expected: e2, actual: a2, .. }),
        ) => e1 == e2 && a1 == a2,
        (Err(FrameError::BadChecksum { expected: e1, actual: a1, .. }), Err(FrameError::BadChecksum { expected: e2, actual: a2, .. })) => {
            e1 == e2 && a1 == a2
        }
        _ => false,
    }
}

/// a read and a write that fail on some other port of the same thread; whatever they leave behind must not matter
/// A reader and a writer that PANIC inside Frame::read / Frame::write (caught here): whatever lock, cell or buffer the
/// library holds at that moment must not be left poisoned, borrowed or half filled for later calls in this process.
pub fn panic_inside_io() {
    struct Boom(u8);
    impl io::Read for Boom {
        fn read(&mut self, buf: &mut [u8]) -> io::Result<usize> {
            if self.0 == 0 {
                panic!("harness: reader panics");
            }
            self.0 -= 1;
            buf[0] = b':';
            Ok(1)
        }
    }
    impl io::Write for Boom {
        fn write(&mut self, buf: &[u8]) -> io::Result<usize> {
            if self.0 == 0 {
                panic!("harness: writer panics");
            }
            self.0 -= 1;
            Ok(buf.len().min(3))
        }
        fn flush(&mut self) -> io::Result<()> {
            Ok(())
        }
    }
    for k in [0u8, 2] {
        let _ = catch(|| {
            let mut r = Boom(k);
            let _ = Frame::read(&mut r);
        });
        let _ = catch(|| {
            let mut w = Boom(k);
            let _ = Frame::new(Address(1), MsgType(2), Data::try_new(vec![3u8; 5]).unwrap()).write(&mut w);
        });
    }
}

thread_local! {
    static POISON_TICK: std::cell::Cell<u32> = const { std::cell::Cell::new(0) };
}

/// `panic_inside_io` on every 512th call per thread (a caught panic costs microseconds)
pub fn panic_inside_io_sometimes() {
    let t = POISON_TICK.with(|c| {
        let v = c.get();
        c.set(v.wrapping_add(1));
        v
    });
    if t % 512 == 0 {
        panic_inside_io();
    }
}

fn poison_thread() {
    panic_inside_io_sometimes();
    let mut st = PortState::new(b":0100030".to_vec());
    st.read_script = vec![ReadStep::Serve(3), ReadStep::Error(io::ErrorKind::Other)];
    st.write_script = vec![WriteStep::Accept(4), WriteStep::Error(io::ErrorKind::BrokenPipe)];
    let mut p = TestPort::with_state(st);
    let _ = Frame::read(&mut p);
    let f = Frame::new(Address(0x7E7E), MsgType(0x7E), Data::try_new(vec![0x7E; 9]).unwrap());
    let _ = f.write(&mut p);
    let mut garbage: &[u8] = b":00\xff\r\n";
    let _ = Frame::read(&mut garbage);
}

pub fn check_read(c: &ReadCase, st: &mut Stats) -> Result<(), String> {
    poison_thread();
    let mut state = PortState::new(c.stream.clone());
    state.read_script = c
        .script
        .iter()
        .map(|s| match s {
            RStep::Serve(n) => ReadStep::Serve(*n),
            RStep::Interrupted => ReadStep::Interrupted,
            RStep::Error(k) => ReadStep::Error(k.kind()),
        })
        .collect();
    state.on_exhausted = if c.timeout_at_end { Exhausted::TimedOut } else { Exhausted::Eof };
    state.call_cap = 20_000;
    let mut port = TestPort::with_state(state);
    let h = port.handle();
    let mut cursor = 0usize; // where the next line starts according to the oracle
    let mut reads = 0;
    let mut frames_ok = 0;
    let mut saw_fault = c.script.iter().any(|s| !matches!(s, RStep::Serve(_)));
    let fragmented = c.script.iter().any(|s| matches!(s, RStep::Serve(n) if *n > 1));
    loop {
        if cursor >= c.stream.len() || reads >= 8 {
            break;
        }
        reads += 1;
        let calls_before = h.borrow().read_calls.len();
        let result = catch(|| Frame::read(&mut port)).map_err(|p| format!("Frame::read panicked: {p}"))?;
        st.eval();
        let s = h.borrow();
        if s.cap_hit {
            return Err("Frame::read keeps calling read() without making progress (call cap reached)".into());
        }
        let hard_error = s.read_calls[calls_before..]
            .iter()
            .find_map(|r| match r.result {
                Err(k) if k != io::ErrorKind::Interrupted => Some(k),
                _ => None,
            });
        let line_end = match c.stream[cursor..].iter().position(|&b| b == b'\n') {
            Some(i) => cursor + i + 1,
            None => c.stream.len(),
        };
        if s.pos > line_end {
            return Err(format!(
                "read {reads} consumed {} bytes past the line feed: stream {} cursor {} -> {}, the line ends at {}",
                s.pos - line_end,
                show_bytes(&c.stream),
                cursor,
                s.pos,
                line_end
            ));
        }
        if let Some(k) = hard_error {
            saw_fault = true;
            match &result {
                Err(FrameError::Io { .. }) => {}
                other => return Err(format!("the reader failed with {k:?} but Frame::read returned {other:?} instead of an I/O error")),
            }
            // the stream position after an I/O failure is not specified beyond "no over-read"; continue after the line
            drop(s);
            h.borrow_mut().pos = line_end;
            cursor = line_end;
            continue;
        }
        if s.pos != line_end {
            return Err(format!(
                "read {reads} stopped at offset {} but the line (up to and including the first line feed) ends at {}: stream {}",
                s.pos,
                line_end,
                show_bytes(&c.stream)
            ));
        }
        let line = &c.stream[cursor..line_end];
        let want = Frame::from_bytes(line);
        if !same_decode(&result, &want) {
            return Err(format!(
                "read {reads} returned {result:?} but decoding the line {} gives {want:?}",
                show_bytes(line)
            ));
        }
        // a frame that was read is written like any other frame: its canonical encoding with CRLF, whatever letter case or
        // terminator the line it came from had
        if let Ok(f) = &result {
            let mut sink: Vec<u8> = vec![];
            let mut canon = ref_encode(f.address().0, f.message_type().0, f.data());
            canon.extend_from_slice(b"\r\n");
            match catch(|| f.write(&mut sink)) {
                Ok(Ok(())) if sink == canon => {}
                Ok(Ok(())) => {
                    return Err(format!(
                        "the frame read from line {} was then written as {} instead of its encoding {}",
                        show_bytes(line),
                        show_bytes(&sink),
                        show_bytes(&canon)
                    ))
                }
                Ok(Err(e)) => return Err(format!("writing the frame just read into a Vec failed: {e}")),
                Err(p) => return Err(format!("writing the frame just read panicked: {p}")),
            }
        }
        if result.is_ok() {
            frames_ok += 1;
        }
        cursor = line_end;
    }
    let lines = c.stream.iter().filter(|&&b| b == b'\n').count();
    if (lines >= 2 && fragmented) || saw_fault {
        st.nontrivial(h64(c));
        st.class("read:nontrivial");
    } else {
        st.class("read:plain");
    }
    st.class_n("read:frames-decoded", frames_ok);
    if st.want_sample() && lines >= 2 && saw_fault && c.stream.len() < 80 {
        st.sample(json!({"stream": show_bytes(&c.stream), "script": c.script.iter().take(12).collect::<Vec<_>>(), "timeout_at_end": c.timeout_at_end}));
    }
    Ok(())
}

#[derive(Serialize, Deserialize, Debug, Clone, PartialEq, Eq, Hash)]
pub enum WStep {
    Accept(usize),
    Interrupted,
    Zero,
    Error(IoKind),
}

#[derive(Serialize, Deserialize, Debug, Clone, PartialEq, Eq, Hash)]
pub struct WriteCase {
    pub frame: FrameCase,
    pub script: Vec<WStep>,
    /// the sink implements write_vectored and gathers across slices (false: only write())
    #[serde(default)]
    pub gather: bool,
}

pub fn check_write(c: &WriteCase, st: &mut Stats) -> Result<(), String> {
    poison_thread();
    let mut want = ref_encode(c.frame.addr, c.frame.ty, &c.frame.data);
    want.extend_from_slice(b"\r\n");
    let mut state = PortState::new(vec![]);
    state.write_script = c
        .script
        .iter()
        .map(|s| match s {
            WStep::Accept(n) => WriteStep::Accept(*n),
            WStep::Interrupted => WriteStep::Interrupted,
            WStep::Zero => WriteStep::Zero,
            WStep::Error(k) => WriteStep::Error(k.kind()),
        })
        .collect();
    state.call_cap = 20_000;
    state.gather = c.gather;
    let mut port = TestPort::with_state(state);
    let h = port.handle();
    let frame = Frame::new(Address(c.frame.addr), MsgType(c.frame.ty), Data::try_new(c.frame.data.clone()).unwrap());
    let result = catch(|| frame.write(&mut port)).map_err(|p| format!("Frame::write panicked: {p}"))?;
    st.eval();
    let s = h.borrow();
    if s.cap_hit {
        return Err("Frame::write keeps calling write() without making progress (call cap reached)".into());
    }
    let failing_call = s.write_calls.iter().find(|r| match r.result {
        Err(k) => k != io::ErrorKind::Interrupted,
        Ok(0) => r.offered > 0,
        Ok(_) => false,
    });
    match (&result, failing_call) {
        (Ok(()), None) => {
            if s.written != want {
                return Err(format!(
                    "Frame::write returned Ok but the sink received {} instead of {}",
                    show_bytes(&s.written),
                    show_bytes(&want)
                ));
            }
        }
        (Ok(()), Some(f)) => {
            return Err(format!("the sink failed ({:?}) but Frame::write returned Ok", f.result));
        }
        (Err(FrameError::Io { .. }), Some(_)) => {
            if !want.starts_with(&s.written) {
                return Err(format!(
                    "after a failed write the sink holds {}, which is not a prefix of {}",
                    show_bytes(&s.written),
                    show_bytes(&want)
                ));
            }
        }
        (Err(e), None) => return Err(format!("Frame::write failed with {e:?} although the sink never failed")),
        (Err(e), Some(_)) => return Err(format!("a sink failure surfaced as {e:?} instead of an I/O error")),
    }
    let faulty = c.script.iter().any(|s| !matches!(s, WStep::Accept(n) if *n >= want.len()));
    if faulty {
        st.nontrivial(h64(c));
        st.class("write:short-or-faulty-sink");
    } else {
        st.class("write:plain");
    }
    Ok(())
}

// ---------------------------------------------------------------------------------------

fn line_strategy() -> impl Strategy<Value = Vec<u8>> {
    let valid = || {
        let len = prop_oneof![10 => 0usize..20, 1 => proptest::sample::select(vec![127usize, 254, 255])];
        (addr_strategy(), byte_strategy(), len.prop_flat_map(|n| proptest::collection::vec(byte_strategy(), n))).prop_map(|(a, t, d)| ref_encode(a, t, &d))
    };
    let junk = || proptest::collection::vec(prop_oneof![3 => any::<u8>().prop_filter("no LF", |b| *b != b'\n'), 1 => Just(0u8), 1 => Just(b' '), 1 => Just(b':')], 1..4);
    prop_oneof![
        8 => valid(),
        // a complete valid frame with something else on the same line: before it, after it, or a second frame
        1 => (junk(), valid()).prop_map(|(mut j, v)| { j.extend_from_slice(&v); j }),
        1 => (valid(), junk()).prop_map(|(mut v, j)| { v.extend_from_slice(&j); v }),
        1 => (valid(), valid()).prop_map(|(mut a, b)| { a.extend_from_slice(&b); a }),
        // one character of a valid frame replaced (another digit, the other letter case, a sign, a space, ...)
        2 => (valid(), any::<u16>(), proptest::sample::select(b"0123456789ABCDEFabcdef:G\r +-_xX\x00".to_vec())).prop_map(|(mut v, sel, ch)| { let i = crate::engine::pick_idx(sel, v.len()); v[i] = ch; v }),
        1 => valid().prop_map(|mut v| { let n = v.len(); v[n - 1] = if v[n - 1] == b'0' { b'1' } else { b'0' }; v }), // bad checksum
        1 => valid().prop_map(|mut v| { v.pop(); v }),                                          // odd digit count
        1 => proptest::collection::vec(any::<u8>().prop_filter("no LF", |b| *b != b'\n'), 0..12),
        1 => Just(vec![]),
    ]
}

fn stream_strategy() -> impl Strategy<Value = Vec<u8>> {
    (
        proptest::collection::vec((line_strategy(), prop_oneof![6 => Just(0u8), 2 => Just(1u8)]), 1..=5),
        prop_oneof![5 => Just(true), 1 => Just(false)],
        prop_oneof![2 => Just(vec![]), 1 => proptest::collection::vec(any::<u8>(), 0..20)],
    )
        .prop_map(|(lines, last_terminated, trailing)| {
            let n = lines.len();
            let mut s = vec![];
            for (i, (l, term)) in lines.into_iter().enumerate() {
                s.extend_from_slice(&l);
                if i + 1 < n || last_terminated {
                    s.extend_from_slice(if term == 0 { b"\r\n" } else { b"\n" });
                }
            }
            s.extend_from_slice(&trailing);
            s
        })
}

fn iokind_strategy() -> impl Strategy<Value = IoKind> {
    proptest::sample::select(vec![IoKind::Other, IoKind::TimedOut, IoKind::WouldBlock, IoKind::UnexpectedEof, IoKind::BrokenPipe])
}

fn read_case_strategy() -> impl Strategy<Value = ReadCase> {
    let step = prop_oneof![
        10 => (1usize..40).prop_map(RStep::Serve),
        4 => Just(RStep::Serve(1)),
        2 => Just(RStep::Interrupted),
    ];
    (
        stream_strategy(),
        proptest::collection::vec(step, 0..120),
        prop_oneof![3 => Just(None), 1 => (any::<u16>(), iokind_strategy()).prop_map(Some)],
        any::<bool>(),
    )
        .prop_map(|(stream, mut script, hard, timeout_at_end)| {
            if let Some((sel, kind)) = hard {
                let at = crate::engine::pick_idx(sel, stream.len() + 2);
                while script.len() <= at {
                    script.push(RStep::Serve(usize::MAX));
                }
                script[at] = RStep::Error(kind);
            }
            ReadCase { stream, script, timeout_at_end }
        })
}

fn write_case_strategy() -> impl Strategy<Value = WriteCase> {
    let step = prop_oneof![
        8 => (1usize..12).prop_map(WStep::Accept),
        3 => Just(WStep::Accept(1)),
        3 => Just(WStep::Interrupted),
    ];
    (
        (addr_strategy(), byte_strategy(), prop_oneof![4 => proptest::collection::vec(byte_strategy(), 0..20), 1 => proptest::collection::vec(byte_strategy(), 200..=255)]),
        proptest::collection::vec(step, 0..80),
        prop_oneof![2 => Just(None), 1 => (any::<u16>(), prop_oneof![1 => Just(WStep::Zero), 3 => iokind_strategy().prop_map(WStep::Error)]).prop_map(Some)],
        prop_oneof![2 => Just(false), 1 => Just(true)],
    )
        .prop_map(|((addr, ty, data), mut script, hard, gather)| {
            if let Some((sel, step)) = hard {
                let at = crate::engine::pick_idx(sel, 40);
                while script.len() <= at {
                    script.push(WStep::Accept(usize::MAX));
                }
                script[at] = step;
            }
            WriteCase { frame: FrameCase { addr, ty, data }, script, gather }
        })
}

pub fn run(ctx: &Ctx) {
    // every composition of the shortest terminated frame + one trailing byte (14 bytes): 2^13 fragmentations
    let short: Vec<u8> = b":0000000000\r\nX".to_vec();
    par_range(ctx, "read-all-compositions", 1 << 13, |mask, st| {
        let mut script = vec![];
        let mut run = 1usize;
        for i in 0..13 {
            if mask >> i & 1 == 1 {
                script.push(RStep::Serve(run));
                run = 1;
            } else {
                run += 1;
            }
        }
        script.push(RStep::Serve(run));
        let c = ReadCase { stream: short.clone(), script, timeout_at_end: false };
        check_read(&c, st).map_err(|m| (serde_json::to_value(&c).unwrap(), m))?;
        st.nontrivial_enumerated(1);
        Ok(())
    });
    ctx.part_done("read-all-compositions", true, json!("every composition of a 14-byte stream (shortest CRLF frame + 1 trailing byte) as read sizes"));

    // a hard error / interruption at every call index of a three-frame stream, every error kind
    let mut three = vec![];
    three.extend_from_slice(&ref_encode(3, 4, &[0x0F]));
    three.extend_from_slice(b"\r\n");
    three.extend_from_slice(&ref_encode(0xFFFF, 0, &[1, 2, 3, 4, 5, 6, 7, 8, 9, 10, 11, 12, 13, 14, 15, 16]));
    three.extend_from_slice(b"\n");
    three.extend_from_slice(b":0000000001\r\nTAIL");
    let kinds = [IoKind::Other, IoKind::TimedOut, IoKind::WouldBlock, IoKind::UnexpectedEof, IoKind::BrokenPipe];
    par_range(ctx, "read-fault-at-every-call", (three.len() + 2) as u64, |at, st| {
        for kind in &kinds {
            for serve in [1usize, 3, 64] {
                let mut script = vec![RStep::Serve(serve); at as usize];
                script.push(RStep::Error(kind.clone()));
                let c = ReadCase { stream: three.clone(), script, timeout_at_end: false };
                check_read(&c, st).map_err(|m| (serde_json::to_value(&c).unwrap(), m))?;
            }
        }
        for serve in [1usize, 64] {
            let mut script = vec![RStep::Serve(serve); at as usize];
            script.extend_from_slice(&[RStep::Interrupted, RStep::Interrupted]);
            let c = ReadCase { stream: three.clone(), script, timeout_at_end: true };
            check_read(&c, st).map_err(|m| (serde_json::to_value(&c).unwrap(), m))?;
        }
        st.nontrivial_enumerated(17);
        Ok(())
    });
    ctx.part_done("read-fault-at-every-call", true, json!("3-frame stream: hard error of 5 kinds x 3 read sizes and a double interruption at every read-call index"));

    // write: a failure at every call index, 1-byte sink
    let wframe = FrameCase { addr: 0xBEEF, ty: 0, data: (0..16).collect() };
    par_range(ctx, "write-fault-at-every-call", 48, |at, st| {
        for accept in [1usize, 2, 7, 1000] {
            for bad in [WStep::Zero, WStep::Error(IoKind::Other), WStep::Error(IoKind::BrokenPipe), WStep::Error(IoKind::TimedOut), WStep::Interrupted] {
                let mut script = vec![WStep::Accept(accept); at as usize];
                script.push(bad);
                for gather in [false, true] {
                    let c = WriteCase { frame: wframe.clone(), script: script.clone(), gather };
                    check_write(&c, st).map_err(|m| (serde_json::to_value(&c).unwrap(), m))?;
                }
            }
        }
        st.nontrivial_enumerated(20);
        Ok(())
    });
    // write: a sink that takes a constant k bytes per call (k = 1..=24, and everything), plain and gathering, for frames of
    // every data length 0..=40 (odd and even line lengths meet every k at the line/terminator boundary)
    par_range(ctx, "write-constant-chunk-sinks", 41, |len, st| {
        let frame = FrameCase { addr: 0x0A0B, ty: 3, data: (0..len as u8).map(|i| i.wrapping_mul(37)).collect() };
        for k in (1usize..=24).chain([1000]) {
            for gather in [false, true] {
                let c = WriteCase { frame: frame.clone(), script: vec![WStep::Accept(k); 400], gather };
                check_write(&c, st).map_err(|m| (serde_json::to_value(&c).unwrap(), m))?;
            }
        }
        st.nontrivial_enumerated(50);
        Ok(())
    });
    ctx.part_done("write-constant-chunk-sinks", true, json!("frames of 0..=40 data bytes x sinks taking 1..=24 bytes (or everything) per call x {write() only, gathering write_vectored}"));
    ctx.part_done("write-fault-at-every-call", true, json!("sink accepting 1/2/7/all bytes per call with Ok(0), 3 hard errors or Interrupted at every call index 0..48"));

    // back-to-back frames of every data length 0..=255 (CRLF and bare LF), read in 7-byte and 1-byte fragments
    par_range(ctx, "read-every-length-back-to-back", 256, |len, st| {
        for crlf in [true, false] {
            let mut stream = vec![];
            for k in 0..3u8 {
                stream.extend_from_slice(&ref_encode(0x0100 + len as u16, k, &vec![k ^ 0x5A; len as usize]));
                stream.extend_from_slice(if crlf { b"\r\n" } else { b"\n" });
            }
            stream.extend_from_slice(b"tail");
            for serve in [1usize, 7, 4096] {
                let c = ReadCase { stream: stream.clone(), script: vec![RStep::Serve(serve); 8], timeout_at_end: false };
                check_read(&c, st).map_err(|m| (serde_json::to_value(&c).unwrap(), m))?;
            }
        }
        st.nontrivial_enumerated(6);
        Ok(())
    });
    ctx.part_done("read-every-length-back-to-back", true, json!("3 back-to-back frames of every data length 0..=255 x {CRLF, LF} x 3 read sizes"));

    run_generated(ctx, "read", ctx.tier.pick(600_000, 6_000_000), read_case_strategy, |c, st| check_read(c, st));
    run_generated(ctx, "write", ctx.tier.pick(400_000, 4_000_000), write_case_strategy, |c, st| check_write(c, st));
}

pub fn replay(part: &str, case: &Value) -> Result<(), String> {
    let mut st = Stats::new();
    if part.starts_with("write") {
        let c: WriteCase = serde_json::from_value(case.clone()).map_err(|e| format!("bad case: {e}"))?;
        return check_write(&c, &mut st);
    }
    let c: ReadCase = serde_json::from_value(case.clone()).map_err(|e| format!("bad case: {e}"))?;
    check_read(&c, &mut st)
}

//! C20 — port setup always yields 19200 8N1 without flow control, or an error.

use std::time::Duration;

use flipdot_core::{Message, SignBus};
use flipdot_serial::{configure_port, SerialSignBus};
use flipdot_testing::Odk;
use serde::{Deserialize, Serialize};
use serde_json::{json, Value};
use serial_core::{BaudRate, CharSize, ErrorKind, FlowControl, Parity, PortSettings, StopBits};

use crate::engine::{catch, par_range, Ctx, Stats};
use crate::io::port::{PortState, TestPort};

pub const RULE: &str = "the full product of prior port settings representable by PortSettings (11 standard baud rates + BaudOther of 0, 19200, 250000, 19199, 19201, 19231, 18816, 19584, 4000000, usize::MAX; 4 character sizes; 3 parities; 2 stop-bit settings; 3 flow controls = 1512 combinations) x entry point {configure_port with 9 timeouts from 0 ms to u64::MAX ms, SerialSignBus::try_new, Odk::try_new} x injected failure {none, read_settings, set_baud_rate, write_settings, set_timeout} x {permanent, only the first such call} x 6 error kinds (incl. Interrupted / WouldBlock / TimedOut), also with a settings object that reports no baud rate; enumerated exhaustively on an instrumented SerialDevice. Oracle: on success the final settings are exactly 19200/8/N/1/none and a timeout was applied (the caller's value for configure_port, any non-zero value for the constructors); whenever the port actually refused a call the entry point returns Err of that kind (a failure point that the implementation never reaches counts as no failure). Non-trivial = the prior settings differ from the target in at least one field, or a failure is injected; distinct by construction";
pub const ASSUMPTIONS: &[&str] = &["the instrumented SerialDevice (io/port.rs) records settings and timeouts faithfully; serial-core's blanket SerialPort::reconfigure is the code path flipdot uses"];

const BAUDS: [BaudRate; 21] = [
    BaudRate::Baud110,
    BaudRate::Baud300,
    BaudRate::Baud600,
    BaudRate::Baud1200,
    BaudRate::Baud2400,
    BaudRate::Baud4800,
    BaudRate::Baud9600,
    BaudRate::Baud19200,
    BaudRate::Baud38400,
    BaudRate::Baud57600,
    BaudRate::Baud115200,
    BaudRate::BaudOther(0),
    BaudRate::BaudOther(19200),
    BaudRate::BaudOther(250000),
    // non-standard rates next to the target (what an adapter that reports its achieved rate shows) and far from it
    BaudRate::BaudOther(19199),
    BaudRate::BaudOther(19201),
    BaudRate::BaudOther(19231),
    BaudRate::BaudOther(18816),
    BaudRate::BaudOther(19584),
    BaudRate::BaudOther(4_000_000),
    BaudRate::BaudOther(usize::MAX),
];
const SIZES: [CharSize; 4] = [CharSize::Bits5, CharSize::Bits6, CharSize::Bits7, CharSize::Bits8];
const PARITIES: [Parity; 3] = [Parity::ParityNone, Parity::ParityOdd, Parity::ParityEven];
const STOPS: [StopBits; 2] = [StopBits::Stop1, StopBits::Stop2];
const FLOWS: [FlowControl; 3] = [FlowControl::FlowNone, FlowControl::FlowSoftware, FlowControl::FlowHardware];
const KINDS: [ErrorKind; 6] = [
    ErrorKind::NoDevice,
    ErrorKind::InvalidInput,
    ErrorKind::Io(std::io::ErrorKind::PermissionDenied),
    ErrorKind::Io(std::io::ErrorKind::Interrupted),
    ErrorKind::Io(std::io::ErrorKind::WouldBlock),
    ErrorKind::Io(std::io::ErrorKind::TimedOut),
];
// (incl. zero, and values beyond what fits a 32-bit millisecond count: the caller's value is applied as given)
const TIMEOUTS_MS: [u64; 9] = [0, 1, 250, 5_000, 3_600_000, 2_147_483_647, 2_147_483_648, 2_592_000_000, u64::MAX];

#[derive(Serialize, Deserialize, Debug, Clone, PartialEq, Eq)]
pub struct PortCase {
    /// indices into the five setting tables
    pub prior: [usize; 5],
    /// 0 = configure_port, 1 = SerialSignBus::try_new, 2 = Odk::try_new
    pub entry: u8,
    pub timeout_ms: u64,
    /// 0 none, 1 read_settings, 2 set_baud_rate, 3 write_settings, 4 set_timeout
    pub fail: u8,
    pub kind: usize,
    /// false = the port refuses every time; true = only the first such call fails (a transient fault)
    #[serde(default)]
    pub transient: bool,
    /// the port's settings object reports no baud rate (split input/output speeds); the prior speed is then what `prior[0]` says
    #[serde(default)]
    pub hide_baud: bool,
    /// the driver re-initialises the device on every settings write, which puts the read timeout back to a default of its
    /// own (77.777 s): the timeout the constructor applies must be the one in force afterwards
    #[serde(default)]
    pub write_resets_timeout: bool,
}

#[derive(Default)]
struct NullBus;
impl SignBus for NullBus {
    fn process_message<'a>(&mut self, _: Message<'_>) -> Result<Option<Message<'a>>, Box<dyn std::error::Error + Send + Sync>> {
        Ok(None)
    }
}

fn target() -> PortSettings {
    PortSettings {
        baud_rate: BaudRate::Baud19200,
        char_size: CharSize::Bits8,
        parity: Parity::ParityNone,
        stop_bits: StopBits::Stop1,
        flow_control: FlowControl::FlowNone,
    }
}

pub fn check_port(c: &PortCase, st: &mut Stats) -> Result<(), String> {
    let prior = PortSettings {
        baud_rate: BAUDS[c.prior[0] % BAUDS.len()],
        char_size: SIZES[c.prior[1] % 4],
        parity: PARITIES[c.prior[2] % 3],
        stop_bits: STOPS[c.prior[3] % 2],
        flow_control: FLOWS[c.prior[4] % 3],
    };
    let kind = KINDS[c.kind % 6];
    let mut state = PortState::new(vec![]);
    state.settings = prior;
    match c.fail {
        1 => state.fail_read_settings = Some(kind),
        2 => state.fail_set_baud = Some(kind),
        3 => state.fail_write_settings = Some(kind),
        4 => state.fail_set_timeout = Some(kind),
        _ => {}
    }
    if c.transient {
        state.fail_budget = Some(1);
    }
    state.hide_baud = c.hide_baud;
    const DRIVER_DEFAULT: Duration = Duration::from_millis(77_777);
    if c.write_resets_timeout {
        state.settings_write_resets_timeout = Some(DRIVER_DEFAULT);
    }
    let port = TestPort::with_state(state);
    let h = port.handle();
    let timeout = Duration::from_millis(c.timeout_ms);
    let name = ["configure_port", "SerialSignBus::try_new", "Odk::try_new"][c.entry as usize % 3];
    let result: Result<(), serial_core::Error> = catch(|| match c.entry % 3 {
        0 => {
            let mut p = port;
            configure_port(&mut p, timeout)
        }
        1 => SerialSignBus::try_new(port).map(|_bus| ()),
        _ => Odk::try_new(port, NullBus).map(|_odk| ()),
    })
    .map_err(|p| format!("{name} panicked: {p}"))?;
    st.eval();
    let s = h.borrow();
    // a failure counts only if the port was actually asked and refused (an implementation that skips a setter
    // because the value is already right has not been refused anything)
    if s.failures_fired == 0 {
        if let Err(e) = result {
            return Err(format!("{name} failed on a cooperative port with prior settings {prior:?}: {e}"));
        }
        if s.settings != target() {
            return Err(format!(
                "after {name} the port (prior {prior:?}) is left at {:?}, not 19200/8/N/1/none",
                s.settings
            ));
        }
        // the timeout in force at the end is what counts (a settings write may have reset it)
        if c.write_resets_timeout {
            match s.timeout {
                Some(t) if c.entry % 3 == 0 && t == timeout => {}
                Some(t) if c.entry % 3 != 0 && t != DRIVER_DEFAULT && !t.is_zero() => {}
                other => {
                    return Err(format!(
                        "after {name} on a port whose settings writes reset the read timeout, the timeout in force is {other:?} (timeouts applied: {:?}, settings writes: {})",
                        s.timeouts_set,
                        s.settings_writes.len()
                    ))
                }
            }
        }
        match s.timeouts_set.last() {
            None => return Err(format!("{name} did not apply a read timeout")),
            Some(t) => {
                if c.entry % 3 == 0 && *t != timeout {
                    return Err(format!("configure_port applied the timeout {t:?} instead of the caller's {timeout:?}"));
                }
                if c.entry % 3 != 0 && *t == Duration::from_millis(0) {
                    return Err(format!("{name} applied a zero timeout"));
                }
            }
        }
    } else {
        match result {
            Ok(()) => {
                return Err(format!(
                    "{name} returned Ok although {} failed with {kind:?} (prior {prior:?})",
                    ["", "read_settings", "set_baud_rate", "write_settings", "set_timeout"][c.fail as usize]
                ))
            }
            Err(e) => {
                if e.kind() != kind {
                    return Err(format!("{name} returned error kind {:?} instead of the port's {kind:?}", e.kind()));
                }
            }
        }
    }
    if st.want_sample() && prior != target() && c.prior[0] > 10 {
        st.sample(json!({"prior": format!("{prior:?}"), "entry": name, "timeout_ms": c.timeout_ms, "fail": c.fail, "timeouts_applied": s.timeouts_set.iter().map(|d| d.as_millis().min(u64::MAX as u128) as u64).collect::<Vec<_>>(), "settings_writes": s.settings_writes.len()}));
    }
    Ok(())
}

/// Other public ways to a bus or a bridge, as far as this tree offers them (probed at compile time): an object built through
/// `Default` from a default port owns a port like any other and must have configured it.
fn api_probes() -> Result<Vec<&'static str>, String> {
    #[allow(unused_imports)]
    use crate::engine::{DefaultProbe, NoDefault, ViaDefault};
    use crate::io::port::DEFAULT_PORTS;
    let mut offered = vec![];
    let check_last = |what: &str| -> Result<(), String> {
        let h = DEFAULT_PORTS.with(|d| d.borrow().last().cloned()).ok_or_else(|| format!("{what}: built without creating a port"))?;
        let s = h.borrow();
        if s.settings != target() {
            return Err(format!("{what} owns a port left at {:?}, not 19200/8/N/1/none (and no error was reported)", s.settings));
        }
        match s.timeout {
            Some(t) if !t.is_zero() => Ok(()),
            other => Err(format!("{what} owns a port with read timeout {other:?}")),
        }
    };
    if let Some(bus) = (&DefaultProbe::<SerialSignBus<TestPort>>(std::marker::PhantomData)).make() {
        offered.push("SerialSignBus<P: Default>: Default");
        check_last("SerialSignBus::default()")?;
        drop(bus);
    }
    if let Some(odk) = (&DefaultProbe::<Odk<TestPort, NullBus>>(std::marker::PhantomData)).make() {
        offered.push("Odk<P: Default, B: Default>: Default");
        check_last("Odk::default()")?;
        drop(odk);
    }
    Ok(offered)
}

pub fn run(ctx: &Ctx) {
    {
        let mut st = Stats::new();
        st.evals(2);
        match catch(api_probes) {
            Ok(Ok(offered)) => ctx.part_done("api-probes", true, json!({"probed": ["SerialSignBus: Default", "Odk: Default"], "offered_by_this_tree": offered})),
            Ok(Err(m)) => {
                ctx.fail("api-probes", json!({"api_probes": true}), m);
            }
            Err(p) => {
                ctx.fail("api-probes", json!({"api_probes": true}), format!("a default-constructed bus / bridge panicked: {p}"));
            }
        }
        ctx.merge("api-probes", st);
    }
    run_product(ctx, "product");
    // the same product with a logger installed at Trace level (log arguments are evaluated only then)
    crate::engine::with_logging(|| run_product(ctx, "product+logging"));
}

fn run_product(ctx: &Ctx, part: &str) {
    let n_prior = BAUDS.len() * 4 * 3 * 2 * 3;
    par_range(ctx, part, n_prior as u64, |i, st| {
        let mut k = i as usize;
        let mut prior = [0usize; 5];
        for (slot, base) in prior.iter_mut().zip([BAUDS.len(), 4, 3, 2, 3]) {
            *slot = k % base;
            k /= base;
        }
        let is_target = BAUDS[prior[0]] == BaudRate::Baud19200 && prior[1] == 3 && prior[2] == 0 && prior[3] == 0 && prior[4] == 0;
        let mut n = 0u64;
        let mut nt = 0u64;
        for entry in 0..3u8 {
            let timeouts: &[u64] = if entry == 0 { &TIMEOUTS_MS } else { &[0] };
            for &timeout_ms in timeouts {
                for fail in 0..5u8 {
                    let kinds: &[usize] = if fail == 0 { &[0] } else { &[0, 1, 2, 3, 4, 5] };
                    for &kind in kinds {
                        for (transient, hide_baud, write_resets_timeout) in [(false, false, false), (true, false, false), (false, true, false), (false, false, true)] {
                            if transient && fail == 0 {
                                continue;
                            }
                            if hide_baud && (kind != 0 || timeout_ms > 250) {
                                continue;
                            }
                            if write_resets_timeout && (fail != 0 || timeout_ms == 77_777) {
                                continue;
                            }
                            let c = PortCase { prior, entry, timeout_ms, fail, kind, transient, hide_baud, write_resets_timeout };
                            check_port(&c, st).map_err(|m| (serde_json::to_value(&c).unwrap(), m))?;
                            n += 1;
                            if !is_target || fail != 0 {
                                nt += 1;
                            }
                        }
                    }
                }
            }
        }
        st.class_n("constructions", n);
        st.nontrivial_enumerated(nt);
        Ok(())
    });
    ctx.part_done(part, true, json!({"prior_settings": n_prior, "entry_points": 3, "failure_points": 5, "error_kinds": 3, "configure_port_timeouts_ms": TIMEOUTS_MS}));
}

pub fn replay(part: &str, case: &Value) -> Result<(), String> {
    if part == "api-probes" {
        return catch(api_probes).map_err(|p| format!("a default-constructed bus / bridge panicked: {p}"))?.map(|_| ());
    }
    let c: PortCase = serde_json::from_value(case.clone()).map_err(|e| format!("bad case: {e}"))?;
    check_port(&c, &mut Stats::new())
}

//! C17 — serial transport is transparent: over the wire equals directly on the bus.

use std::cell::RefCell;
use std::collections::VecDeque;
use std::io::{self, Read, Write};
use std::rc::Rc;
use std::time::Duration;

use flipdot::{Address, Page, PageFlipStyle, PageId, Sign};
use flipdot_core::{Message, SignBus, SignType, State};
use flipdot_serial::SerialSignBus;
use flipdot_testing::{Odk, OdkError, VirtualSign, VirtualSignBus};
use proptest::prelude::*;
use serde::{Deserialize, Serialize};
use serde_json::{json, Value};
use serial_core::{PortSettings, SerialDevice};

use crate::engine::{catch, h64, run_generated_n, show_bytes, Ctx, Stats};
use crate::io::port::{weird_settings, PortState, TestPort};
use crate::oracle::hex::{ref_decode, RefDecode};
use crate::oracle::vsign::TYPES;
use crate::props::c16::{any_msg_strategy, wire_of};
use crate::repr::{ref_classify, M};

pub const RULE: &str = "(A) controller level: 1..3 virtual signs (mixed flip styles) x sign type (small transfer sizes 30x7, 23x10, 30x10, 40x12 mostly, the others at a low rate) x controller address (a present sign, sometimes an absent address) x sequences of 1..8 operations (configure, configure_if_needed, send_pages with 0..2 pages of random pixels, show_loaded_page, load_next_page, shut_down, reconfigure as another type) run twice from identical virtual buses: directly, and through Sign -> SerialSignBus -> byte stream -> Odk -> virtual bus (single-threaded: the client port pumps Odk::process_message whenever a complete line has been written); every operation must succeed on one path exactly when it succeeds on the other (same flip style reported) and all virtual signs must end in the same state, type and pages. (B) bridge level: single lines injected at an Odk over a recording bus that replies / stays silent / fails: every message kind encoded, unknown frames, and invalid or damaged lines; the bus must see exactly the table interpretation of a decodable line once and nothing for an undecodable one (Communication error), the port must receive exactly the reply's frame with CRLF iff the bus replied, a bus failure must give the Bus error and write nothing; the same per line for sessions of 1..6 lines through ONE Odk instance (nothing may leak from an undecodable line into the next). Non-trivial = (A) a sequence with >= 2 operations and >= 1 page transfer, (B) a line that decodes to a specific message or is an encoded frame with one damaged character; distinct by hash";
pub const ASSUMPTIONS: &[&str] = &[
    "the byte stream between the two serial ports is an in-memory pipe owned by the harness; Odk::process_message is pumped in the writer's thread when a full line has been written (no real device, no second thread)",
    "pacing sleeps of the serial bus are real, so paced sequences run on 64 threads",
];

// ---------------------------------------------------------------------------------------
// in-memory serial pipe

type Pipe = Rc<RefCell<VecDeque<u8>>>;

struct PipePort {
    rx: Pipe,
    tx: Pipe,
    on_line: Option<Box<dyn FnMut()>>,
    settings: PortSettings,
    /// bytes accepted per write() call (0 = everything offered)
    max_write: usize,
    /// each write() call blocks this long (a slow line)
    write_delay: Duration,
}

impl Read for PipePort {
    fn read(&mut self, buf: &mut [u8]) -> io::Result<usize> {
        let mut rx = self.rx.borrow_mut();
        if rx.is_empty() {
            // a real port would run into its read timeout
            return Err(io::Error::new(io::ErrorKind::TimedOut, "nothing to read (timeout)"));
        }
        let mut n = 0;
        while n < buf.len() {
            match rx.pop_front() {
                Some(b) => {
                    buf[n] = b;
                    n += 1;
                }
                None => break,
            }
        }
        Ok(n)
    }
}

impl Write for PipePort {
    fn write(&mut self, buf: &[u8]) -> io::Result<usize> {
        let n = if self.max_write == 0 { buf.len() } else { buf.len().min(self.max_write) };
        if !self.write_delay.is_zero() {
            std::thread::sleep(self.write_delay);
        }
        self.tx.borrow_mut().extend(buf[..n].iter().copied());
        let has_line = self.tx.borrow().contains(&b'\n');
        if has_line {
            if let Some(f) = self.on_line.as_mut() {
                f();
            }
        }
        Ok(n)
    }
    fn flush(&mut self) -> io::Result<()> {
        Ok(())
    }
}

impl SerialDevice for PipePort {
    type Settings = PortSettings;
    fn read_settings(&self) -> serial_core::Result<PortSettings> {
        Ok(self.settings)
    }
    fn write_settings(&mut self, s: &PortSettings) -> serial_core::Result<()> {
        self.settings = *s;
        Ok(())
    }
    fn timeout(&self) -> Duration {
        Duration::from_secs(1)
    }
    fn set_timeout(&mut self, _: Duration) -> serial_core::Result<()> {
        Ok(())
    }
    fn set_rts(&mut self, _: bool) -> serial_core::Result<()> {
        Ok(())
    }
    fn set_dtr(&mut self, _: bool) -> serial_core::Result<()> {
        Ok(())
    }
    fn read_cts(&mut self) -> serial_core::Result<bool> {
        Ok(false)
    }
    fn read_dsr(&mut self) -> serial_core::Result<bool> {
        Ok(false)
    }
    fn read_ri(&mut self) -> serial_core::Result<bool> {
        Ok(false)
    }
    fn read_cd(&mut self) -> serial_core::Result<bool> {
        Ok(false)
    }
}

struct SharedBus(Rc<RefCell<VirtualSignBus<'static>>>);
impl SignBus for SharedBus {
    fn process_message<'a>(&mut self, message: Message<'_>) -> Result<Option<Message<'a>>, Box<dyn std::error::Error + Send + Sync>> {
        self.0.borrow_mut().process_message(message)
    }
}

// ---------------------------------------------------------------------------------------
// (A) controller level

#[derive(Serialize, Deserialize, Debug, Clone, PartialEq, Eq, Hash)]
pub enum Op {
    Configure,
    ConfigureIfNeeded,
    SendPages(Vec<u64>),
    Show,
    LoadNext,
    ShutDown,
    /// from now on the controller believes the sign is this other type, and configures it
    Reconfigure(u8),
}

#[derive(Serialize, Deserialize, Debug, Clone, PartialEq, Eq, Hash)]
pub struct PathCase {
    pub signs: Vec<(u16, bool)>,
    pub target: u16,
    pub sign_type: u8,
    pub ops: Vec<Op>,
    /// the controller-side port accepts this many bytes per write() call (0 = everything)
    #[serde(default)]
    pub client_write_chunk: u8,
    /// ... and each of its write() calls blocks this many milliseconds
    #[serde(default)]
    pub client_write_delay_ms: u8,
    /// the bridge-side port accepts this many bytes per write() call (0 = everything)
    #[serde(default)]
    pub server_write_chunk: u8,
}

#[derive(Debug, Clone, PartialEq, Eq)]
enum OpResult {
    Ok,
    OkStyle(bool),
    Err,
}

fn run_ops(bus: Rc<RefCell<dyn SignBus>>, c: &PathCase) -> Result<Vec<OpResult>, String> {
    let mut t_idx = c.sign_type as usize % 11;
    let mut sign = Sign::new(bus.clone(), Address(c.target), TYPES[t_idx].0);
    let mut out = vec![];
    for op in &c.ops {
        let (_, _, _, w, h) = TYPES[t_idx];
        let r = catch(|| match op {
            Op::Configure => sign.configure().map(|_| OpResult::Ok),
            Op::ConfigureIfNeeded => sign.configure_if_needed().map(|_| OpResult::Ok),
            Op::SendPages(seeds) => {
                let pages: Vec<Page<'static>> = seeds
                    .iter()
                    .enumerate()
                    .map(|(i, s)| {
                        let mut p = Page::new(PageId(i as u8), w, h);
                        for x in 0..w {
                            for y in 0..h {
                                if h64(&(*s, x, y)) % 3 == 0 {
                                    p.set_pixel(x, y, true);
                                }
                            }
                        }
                        p
                    })
                    .collect();
                sign.send_pages(&pages).map(|s| OpResult::OkStyle(s == PageFlipStyle::Automatic))
            }
            Op::Show => sign.show_loaded_page().map(|_| OpResult::Ok),
            Op::LoadNext => sign.load_next_page().map(|_| OpResult::Ok),
            Op::ShutDown => sign.shut_down().map(|_| OpResult::Ok),
            Op::Reconfigure(t) => {
                t_idx = *t as usize % 11;
                sign = Sign::new(bus.clone(), Address(c.target), TYPES[t_idx].0);
                sign.configure().map(|_| OpResult::Ok)
            }
        })
        .map_err(|p| format!("operation {op:?} panicked: {p}"))?;
        out.push(r.unwrap_or(OpResult::Err));
    }
    Ok(out)
}

type Obs = Vec<(State, Option<SignType>, Vec<(u32, u32, Vec<u8>)>)>;

fn observe(bus: &VirtualSignBus<'_>, n: usize) -> Obs {
    (0..n)
        .map(|i| {
            let s = bus.sign(i);
            (s.state(), s.sign_type(), s.pages().iter().map(|p| (p.width(), p.height(), p.as_bytes().to_vec())).collect())
        })
        .collect()
}

fn make_bus(signs: &[(u16, bool)]) -> VirtualSignBus<'static> {
    VirtualSignBus::new(signs.iter().map(|(a, f)| VirtualSign::new(Address(*a), if *f { PageFlipStyle::Automatic } else { PageFlipStyle::Manual })))
}

pub fn check_path(c: &PathCase, st: &mut Stats) -> Result<(), String> {
    let mut seen = std::collections::HashSet::new();
    let signs: Vec<(u16, bool)> = c.signs.iter().filter(|(a, _)| seen.insert(*a)).cloned().collect();
    let n = signs.len();
    // direct path
    let direct_bus = Rc::new(RefCell::new(make_bus(&signs)));
    let direct = run_ops(direct_bus.clone(), c)?;
    let direct_obs = observe(&direct_bus.borrow(), n);

    // serial path
    let vbus = Rc::new(RefCell::new(make_bus(&signs)));
    let to_server: Pipe = Rc::new(RefCell::new(VecDeque::new()));
    let to_client: Pipe = Rc::new(RefCell::new(VecDeque::new()));
    let server_port = PipePort { rx: to_server.clone(), tx: to_client.clone(), on_line: None, settings: weird_settings(), max_write: c.server_write_chunk as usize, write_delay: Duration::ZERO };
    let odk = Odk::try_new(server_port, SharedBus(vbus.clone())).map_err(|e| format!("Odk::try_new failed: {e}"))?;
    let odk = Rc::new(RefCell::new(odk));
    let odk_errors: Rc<RefCell<Vec<String>>> = Rc::new(RefCell::new(vec![]));
    let pump = {
        let odk = odk.clone();
        let errs = odk_errors.clone();
        let to_server = to_server.clone();
        move || {
            // one process_message per complete line that is waiting
            let mut guard = 0;
            while to_server.borrow().contains(&b'\n') && guard < 8 {
                guard += 1;
                if let Err(e) = odk.borrow_mut().process_message() {
                    errs.borrow_mut().push(format!("{e:?}"));
                }
            }
        }
    };
    let client_port = PipePort { rx: to_client.clone(), tx: to_server.clone(), on_line: Some(Box::new(pump)), settings: weird_settings(), max_write: c.client_write_chunk as usize, write_delay: Duration::from_millis(if c.client_write_chunk == 0 { c.client_write_delay_ms as u64 } else { 0 }) };
    let sbus = SerialSignBus::try_new(client_port).map_err(|e| format!("SerialSignBus::try_new failed: {e}"))?;
    let serial = run_ops(Rc::new(RefCell::new(sbus)), c)?;
    let serial_obs = observe(&vbus.borrow(), n);
    st.eval();

    for (i, (d, s)) in direct.iter().zip(serial.iter()).enumerate() {
        if d != s {
            return Err(format!(
                "operation {i} ({:?}): directly on the bus -> {d:?}, over the serial path -> {s:?} (bridge errors: {:?})",
                c.ops[i],
                odk_errors.borrow()
            ));
        }
    }
    if direct_obs != serial_obs {
        let k = (0..n).find(|&k| direct_obs[k] != serial_obs[k]).unwrap();
        return Err(format!(
            "after {:?} sign {:#x} differs: direct {:?}/{:?}/{} pages, serial {:?}/{:?}/{} pages",
            c.ops,
            signs[k].0,
            direct_obs[k].0,
            direct_obs[k].1,
            direct_obs[k].2.len(),
            serial_obs[k].0,
            serial_obs[k].1,
            serial_obs[k].2.len()
        ));
    }
    let transfers = c.ops.iter().filter(|o| matches!(o, Op::SendPages(p) if !p.is_empty())).count();
    let succeeded = direct.iter().filter(|r| **r != OpResult::Err).count();
    if c.ops.len() >= 2 && transfers >= 1 {
        st.nontrivial(h64(c));
        st.class("path:>=2-ops-with-page-transfer");
    } else {
        st.class("path:other");
    }
    st.class_n("path:operations-succeeded", succeeded as u64);
    st.class_n("path:operations-failed-on-both-paths", (direct.len() - succeeded) as u64);
    if st.want_sample() && transfers >= 1 && succeeded >= 2 {
        st.sample(json!({"signs": signs, "target": c.target, "type": format!("{:?}", TYPES[c.sign_type as usize % 11].0), "ops": format!("{:?}", c.ops), "results": format!("{direct:?}")}));
    }
    Ok(())
}

// ---------------------------------------------------------------------------------------
// (B) bridge level

#[derive(Serialize, Deserialize, Debug, Clone, PartialEq, Eq, Hash)]
pub enum BusBehaviour {
    Reply(M),
    Silent,
    Fail,
}

#[derive(Serialize, Deserialize, Debug, Clone, PartialEq, Eq, Hash)]
pub struct BridgeCase {
    /// the line as it arrives (without terminator)
    pub line: Vec<u8>,
    pub crlf: bool,
    pub trailing: Vec<u8>,
    pub bus: BusBehaviour,
    /// the line has no terminator at all and the stream ends after it (read() returns Ok(0)): it is still a line
    #[serde(default)]
    pub unterminated: bool,
}

struct RecBus {
    seen: Rc<RefCell<Vec<M>>>,
    behaviour: BusBehaviour,
}
impl SignBus for RecBus {
    fn process_message<'a>(&mut self, message: Message<'_>) -> Result<Option<Message<'a>>, Box<dyn std::error::Error + Send + Sync>> {
        self.seen.borrow_mut().push(M::from_message(&message));
        match &self.behaviour {
            BusBehaviour::Reply(m) => Ok(Some(m.to_message())),
            BusBehaviour::Silent => Ok(None),
            BusBehaviour::Fail => Err("injected bus failure".into()),
        }
    }
}

pub fn check_bridge(c: &BridgeCase, st: &mut Stats) -> Result<(), String> {
    let mut tape: Vec<u8> = c.line.iter().copied().filter(|&b| b != b'\n').collect();
    let unterminated = c.unterminated && c.trailing.is_empty();
    if !unterminated {
        tape.extend_from_slice(if c.crlf { b"\r\n" } else { b"\n" });
    }
    let line_end = tape.len();
    tape.extend_from_slice(&c.trailing);
    if unterminated {
        st.class("bridge:unterminated-last-line");
    }
    let port = TestPort::with_state(PortState::new(tape.clone()));
    let h = port.handle();
    let seen = Rc::new(RefCell::new(vec![]));
    let mut odk = Odk::try_new(port, RecBus { seen: seen.clone(), behaviour: c.bus.clone() }).map_err(|e| format!("Odk::try_new failed: {e}"))?;
    let r = catch(|| odk.process_message()).map_err(|p| format!("Odk::process_message panicked on {}: {p}", show_bytes(&tape)))?;
    st.eval();
    let s = h.borrow();
    let seen = seen.borrow();
    let line = &tape[..line_end];
    if s.pos != line_end {
        return Err(format!("the bridge consumed {} bytes of {} but one line ends at {line_end}", s.pos, show_bytes(&tape)));
    }
    match ref_decode(line) {
        RefDecode::Ok { addr, ty, data } => {
            let want = ref_classify(addr, ty, &data);
            if seen.len() != 1 || seen[0] != want {
                return Err(format!(
                    "line {} decodes to {} but the bus saw {:?}",
                    show_bytes(line),
                    want.short(),
                    seen.iter().map(|m| m.short()).collect::<Vec<_>>()
                ));
            }
            match &c.bus {
                BusBehaviour::Reply(m) => {
                    let mut w = wire_of(m);
                    w.extend_from_slice(b"\r\n");
                    if r.is_err() {
                        return Err(format!("the bus replied {} but the bridge returned {r:?}", m.short()));
                    }
                    if s.written != w {
                        return Err(format!(
                            "the bus replied {} but the bridge wrote {} instead of {}",
                            m.short(),
                            show_bytes(&s.written),
                            show_bytes(&w)
                        ));
                    }
                }
                BusBehaviour::Silent => {
                    if r.is_err() || !s.written.is_empty() {
                        return Err(format!("the bus did not reply but the bridge returned {r:?} / wrote {}", show_bytes(&s.written)));
                    }
                }
                BusBehaviour::Fail => {
                    if !matches!(r, Err(OdkError::Bus { .. })) {
                        return Err(format!("the bus failed but the bridge returned {r:?}"));
                    }
                    if !s.written.is_empty() {
                        return Err(format!("the bus failed but the bridge wrote {}", show_bytes(&s.written)));
                    }
                }
            }
            if !want.is_unknown() {
                st.nontrivial(h64(c));
                st.class("bridge:specific-message");
            } else {
                st.class("bridge:unknown-frame");
            }
        }
        _ => {
            if !matches!(r, Err(OdkError::Communication { .. })) {
                return Err(format!("line {} cannot be decoded but the bridge returned {r:?}", show_bytes(line)));
            }
            if !seen.is_empty() {
                return Err(format!("line {} cannot be decoded but the bus saw {:?}", show_bytes(line), seen.iter().map(|m| m.short()).collect::<Vec<_>>()));
            }
            if !s.written.is_empty() {
                return Err(format!("line {} cannot be decoded but the bridge wrote {}", show_bytes(line), show_bytes(&s.written)));
            }
            st.class("bridge:undecodable-line");
            if line.first() == Some(&b':') && line.len() >= 11 {
                st.nontrivial(h64(c));
            }
        }
    }
    if st.want_sample() && matches!(c.bus, BusBehaviour::Reply(_)) {
        st.sample(json!({"line": show_bytes(line), "bus": format!("{:?}", c.bus), "result": format!("{r:?}"), "written": show_bytes(&s.written)}));
    }
    Ok(())
}

// bridge sessions: several lines through ONE Odk instance ---------------------------------------

#[derive(Serialize, Deserialize, Debug, Clone, PartialEq, Eq, Hash)]
pub struct BridgeSession {
    /// (line without terminator, what the bus does if the line reaches it)
    pub lines: Vec<(Vec<u8>, BusBehaviour)>,
    /// every n-th read() call of the port reports ErrorKind::Interrupted (which a reader has to retry)
    #[serde(default)]
    pub interrupt_every: Option<u8>,
    /// the port refuses the write of reply number k (0-based) of the session; that call fails, and nothing of that
    /// reply may show up later
    #[serde(default)]
    pub write_fails_at_reply: Option<u8>,
}

struct ScriptedRecBus {
    seen: Rc<RefCell<Vec<M>>>,
    behaviours: Rc<RefCell<VecDeque<BusBehaviour>>>,
}
impl SignBus for ScriptedRecBus {
    fn process_message<'a>(&mut self, message: Message<'_>) -> Result<Option<Message<'a>>, Box<dyn std::error::Error + Send + Sync>> {
        self.seen.borrow_mut().push(M::from_message(&message));
        match self.behaviours.borrow().front().cloned().unwrap_or(BusBehaviour::Silent) {
            BusBehaviour::Reply(m) => Ok(Some(m.to_message())),
            BusBehaviour::Silent => Ok(None),
            BusBehaviour::Fail => Err("injected bus failure".into()),
        }
    }
}

pub fn check_bridge_session(c: &BridgeSession, st: &mut Stats) -> Result<(), String> {
    let mut tape = vec![];
    let mut ends = vec![];
    for (l, _) in &c.lines {
        tape.extend(l.iter().copied().filter(|&b| b != b'\n'));
        tape.extend_from_slice(b"\r\n");
        ends.push(tape.len());
    }
    let mut pstate = PortState::new(tape.clone());
    if let Some(n) = c.interrupt_every {
        let n = n.max(2) as usize;
        pstate.read_script = (0..6000).map(|i| if i % n == n - 1 { crate::io::port::ReadStep::Interrupted } else { crate::io::port::ReadStep::Serve(3) }).collect();
    }
    let port = TestPort::with_state(pstate);
    let h = port.handle();
    let seen = Rc::new(RefCell::new(vec![]));
    let behaviours = Rc::new(RefCell::new(VecDeque::new()));
    let mut replies_written = 0usize;
    let mut odk = Odk::try_new(port, ScriptedRecBus { seen: seen.clone(), behaviours: behaviours.clone() }).map_err(|e| format!("Odk::try_new failed: {e}"))?;
    let mut start = 0usize;
    let mut want_written: Vec<u8> = vec![];
    let mut after_bad = false;
    let mut good_after_bad = false;
    for (i, (_, behaviour)) in c.lines.iter().enumerate() {
        behaviours.borrow_mut().clear();
        behaviours.borrow_mut().push_back(behaviour.clone());
        let seen_before = seen.borrow().len();
        {
            // the refusal is tied to the reply, not to a write-call index: however many write calls the bridge needs for
            // one reply (no statement fixes that number), all of them fail while reply number k is due
            let refuse_now = matches!(behaviour, BusBehaviour::Reply(_)) && c.write_fails_at_reply.map(|k| k as usize) == Some(replies_written);
            let mut s = h.borrow_mut();
            let calls = s.write_calls.len();
            s.write_script = if refuse_now {
                let mut v = vec![crate::io::port::WriteStep::Accept(usize::MAX); calls];
                v.extend(std::iter::repeat(crate::io::port::WriteStep::Error(io::ErrorKind::BrokenPipe)).take(4096));
                v
            } else {
                vec![]
            };
        }
        let r = catch(|| odk.process_message()).map_err(|p| format!("line {i}: Odk::process_message panicked: {p}"))?;
        st.eval();
        let line = &tape[start..ends[i]];
        let s = h.borrow();
        if s.pos != ends[i] {
            return Err(format!("line {i}: the bridge is at offset {} of {} but line {i} ends at {}", s.pos, show_bytes(&tape), ends[i]));
        }
        let new_seen: Vec<M> = seen.borrow()[seen_before..].to_vec();
        let note = if after_bad { " (an earlier line on this bridge was undecodable)" } else { "" };
        match ref_decode(line) {
            RefDecode::Ok { addr, ty, data } => {
                let want = ref_classify(addr, ty, &data);
                if new_seen != vec![want.clone()] {
                    return Err(format!(
                        "line {i} {} decodes to {} but the bus saw {:?}{note}; result {r:?}",
                        show_bytes(line),
                        want.short(),
                        new_seen.iter().map(|m| m.short()).collect::<Vec<_>>()
                    ));
                }
                match behaviour {
                    BusBehaviour::Reply(m) if c.write_fails_at_reply.map(|k| k as usize) == Some(replies_written) => {
                        // the port refuses this reply: the call fails, nothing is written, and the reply is gone
                        replies_written += 1;
                        if r.is_ok() {
                            return Err(format!("line {i}: the port refused the reply {} but the bridge returned Ok{note}", m.short()));
                        }
                        st.class("bridge-session:reply-write-refused");
                    }
                    BusBehaviour::Reply(m) => {
                        replies_written += 1;
                        want_written.extend_from_slice(&wire_of(m));
                        want_written.extend_from_slice(b"\r\n");
                        if r.is_err() {
                            return Err(format!("line {i}: the bus replied but the bridge returned {r:?}{note}"));
                        }
                    }
                    BusBehaviour::Silent => {
                        if r.is_err() {
                            return Err(format!("line {i}: the bus stayed silent but the bridge returned {r:?}{note}"));
                        }
                    }
                    BusBehaviour::Fail => {
                        if !matches!(r, Err(OdkError::Bus { .. })) {
                            return Err(format!("line {i}: the bus failed but the bridge returned {r:?}{note}"));
                        }
                    }
                }
                if after_bad {
                    good_after_bad = true;
                }
            }
            _ => {
                if !matches!(r, Err(OdkError::Communication { .. })) {
                    return Err(format!("line {i} {} cannot be decoded but the bridge returned {r:?}", show_bytes(line)));
                }
                if !new_seen.is_empty() {
                    return Err(format!("line {i} {} cannot be decoded but the bus saw {:?}", show_bytes(line), new_seen.iter().map(|m| m.short()).collect::<Vec<_>>()));
                }
                after_bad = true;
            }
        }
        if s.written != want_written {
            return Err(format!(
                "after line {i} the port has received {} in total, expected {}{note}",
                show_bytes(&s.written),
                show_bytes(&want_written)
            ));
        }
        start = ends[i];
    }
    if c.lines.len() >= 2 {
        st.nontrivial(h64(c));
    }
    st.class("bridge-session");
    if good_after_bad {
        st.class("bridge-session:valid-line-after-an-undecodable-one");
    }
    Ok(())
}

fn bridge_session_strategy() -> impl Strategy<Value = BridgeSession> {
    let line = prop_oneof![
        8 => any_msg_strategy().prop_map(|m| wire_of(&m)),
        2 => (any_msg_strategy(), any::<u16>(), proptest::sample::select(b"0123456789ABCDEFabcdef:G\r +-_xX".to_vec())).prop_map(|(m, sel, ch)| {
            let mut w = wire_of(&m);
            let i = crate::engine::pick_idx(sel, w.len());
            w[i] = ch;
            w
        }),
        1 => proptest::collection::vec(any::<u8>(), 0..16),
        1 => Just(vec![]),
    ];
    let bus = prop_oneof![
        4 => any_msg_strategy().prop_map(BusBehaviour::Reply),
        3 => Just(BusBehaviour::Silent),
        1 => Just(BusBehaviour::Fail),
    ];
    // relation between neighbouring lines: 0 = as generated, 1 = the line is the wire form of the reply the bus just gave
    // (an echo of the bridge's own output, or a sign-type frame from another device), 2 = the previous line again
    let relation = prop_oneof![6 => Just(0u8), 2 => Just(1u8), 1 => Just(2u8)];
    (proptest::collection::vec((line, bus, relation), 1..=6), prop_oneof![3 => Just(None), 1 => (2u8..9).prop_map(Some)], prop_oneof![4 => Just(None), 1 => (0u8..3).prop_map(Some)]).prop_map(|(raw, interrupt_every, write_fails_at_reply)| {
        let mut lines: Vec<(Vec<u8>, BusBehaviour)> = vec![];
        for (l, b, rel) in raw {
            let l = match (rel, lines.last()) {
                (1, Some((_, BusBehaviour::Reply(m)))) => wire_of(m),
                (2, Some((prev, _))) => prev.clone(),
                _ => l,
            };
            lines.push((l, b));
        }
        BridgeSession { lines, interrupt_every, write_fails_at_reply }
    })
}

// ---------------------------------------------------------------------------------------

fn path_strategy() -> impl Strategy<Value = PathCase> {
    let ty = prop_oneof![10 => proptest::sample::select(vec![5u8, 4, 3, 10]), 1 => 0u8..11];
    (proptest::sample::subsequence(vec![3u16, 4, 0x0300, 0xFFFF, 0], 1..=3), ty, any::<u16>())
        .prop_flat_map(|(addrs, sign_type, sel)| {
            let n = addrs.len();
            // target: mostly a present sign, sometimes nobody
            let mut targets = addrs.clone();
            targets.extend(addrs.clone());
            targets.extend(addrs.clone());
            targets.push(0x0077);
            let target = targets[crate::engine::pick_idx(sel, targets.len())];
            let op = prop_oneof![
                4 => Just(Op::Configure),
                2 => Just(Op::ConfigureIfNeeded),
                5 => proptest::collection::vec(any::<u64>(), 0..=2).prop_map(Op::SendPages),
                3 => Just(Op::Show),
                3 => Just(Op::LoadNext),
                1 => Just(Op::ShutDown),
                1 => proptest::sample::select(vec![5u8, 4, 3, 10]).prop_map(Op::Reconfigure),
            ];
            let chunk = || prop_oneof![6 => Just(0u8), 1 => 1u8..=8, 1 => Just(32u8), 1 => 9u8..=60];
            (Just(addrs), proptest::collection::vec(any::<bool>(), n), Just(target), Just(sign_type), proptest::collection::vec(op, 1..=8), (chunk(), prop_oneof![12 => Just(0u8), 1 => Just(35u8)], chunk()))
        })
        .prop_map(|(addrs, flips, target, sign_type, mut ops, (client_write_chunk, client_write_delay_ms, server_write_chunk))| {
            // most sequences start by configuring, otherwise nearly everything fails on both paths
            if !matches!(ops[0], Op::Configure | Op::ConfigureIfNeeded) && target != 0x0077 && ops.len() % 4 != 0 {
                ops.insert(0, Op::Configure);
                ops.truncate(8);
            }
            PathCase { signs: addrs.into_iter().zip(flips).collect(), target, sign_type, ops, client_write_chunk, client_write_delay_ms, server_write_chunk }
        })
}

fn bridge_strategy() -> impl Strategy<Value = BridgeCase> {
    let line = prop_oneof![
        8 => any_msg_strategy().prop_map(|m| wire_of(&m)),
        // one damaged character in an encoded frame
        3 => (any_msg_strategy(), any::<u16>(), proptest::sample::select(b"0123456789ABCDEFabcdef:G\r +-_xX".to_vec())).prop_map(|(m, sel, ch)| {
            let mut w = wire_of(&m);
            let i = crate::engine::pick_idx(sel, w.len());
            w[i] = ch;
            w
        }),
        1 => (any_msg_strategy(), any::<u16>()).prop_map(|(m, sel)| { let mut w = wire_of(&m); let i = crate::engine::pick_idx(sel, w.len()); w.remove(i); w }),
        1 => any_msg_strategy().prop_map(|m| wire_of(&m).to_ascii_lowercase()),
        1 => proptest::collection::vec(any::<u8>(), 0..24),
        1 => Just(vec![]),
    ];
    let bus = prop_oneof![
        4 => any_msg_strategy().prop_map(BusBehaviour::Reply),
        3 => Just(BusBehaviour::Silent),
        2 => Just(BusBehaviour::Fail),
    ];
    (line, prop_oneof![5 => Just(true), 1 => Just(false)], prop_oneof![3 => Just(vec![]), 1 => proptest::collection::vec(any::<u8>(), 0..6)], bus, prop_oneof![6 => Just(false), 1 => Just(true)])
        .prop_map(|(line, crlf, trailing, bus, unterminated)| BridgeCase { line, crlf, trailing, bus, unterminated })
}

pub fn run(ctx: &Ctx) {
    run_generated_n(ctx, "bridge", ctx.tier.pick(200_000, 3_000_000), ctx.workers, bridge_strategy, |c, st| check_bridge(c, st));
    run_generated_n(ctx, "bridge-session", ctx.tier.pick(100_000, 1_500_000), ctx.workers, bridge_session_strategy, |c, st| check_bridge_session(c, st));
    crate::engine::with_logging(|| {
        run_generated_n(ctx, "bridge-session+logging", ctx.tier.pick(20_000, 300_000), ctx.workers, bridge_session_strategy, |c, st| check_bridge_session(c, st));
        crate::engine::run_generated_opts(ctx, "serial-path+logging", ctx.tier.pick(400, 8_000), 64, 150, path_strategy, |c, st| check_path(c, st));
    });
    crate::engine::run_generated_opts(ctx, "serial-path", ctx.tier.pick(3_000, 60_000), 64, 150, path_strategy, |c, st| check_path(c, st));
}

pub fn replay(part: &str, case: &Value) -> Result<(), String> {
    let mut st = Stats::new();
    if part.starts_with("bridge-session") {
        let c: BridgeSession = serde_json::from_value(case.clone()).map_err(|e| format!("bad case: {e}"))?;
        return check_bridge_session(&c, &mut st);
    }
    if part == "bridge" {
        let c: BridgeCase = serde_json::from_value(case.clone()).map_err(|e| format!("bad case: {e}"))?;
        return check_bridge(&c, &mut st);
    }
    let c: PathCase = serde_json::from_value(case.clone()).map_err(|e| format!("bad case: {e}"))?;
    check_path(&c, &mut st)
}

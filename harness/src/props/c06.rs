//! C06 — page pixel operations touch exactly the addressed pixel.

use flipdot_core::{Page, PageId};
use proptest::prelude::*;
use serde::{Deserialize, Serialize};
use serde_json::{json, Value};

use crate::engine::{catch, h64, par_range, run_generated, Ctx, Stats};
use crate::oracle::page::{data_len, pixel_mask, read_pixel, total_len, REAL_SIZES};

pub const RULE: &str = "cases are (width, height, origin, operation sequence): sizes from an exhaustive box (0..=24 x 0..=26 quick, 0..=48 x 0..=40 thorough), the 11 real sign sizes and 1x255, 255x1, 300x9, 1000x64, 2x257, 3x300, 1x1030, 3x2056, 2x4100, 1x65544, 1x524296, 65537x3, 70000x1 (more than 256 / 2048 / 65536 rows or columns); origin Page::new or Page::from_bytes over a borrowed buffer with generated header/pixel/padding bytes; sequences of 0..40 Set/SetAll/Get with ~25 % of coordinates just outside the bounds (x=w, y=h, +1, next multiple of 8, u32::MAX), and a systematic family of far-outside coordinates (2^k+d, ceil(j*2^32/s)+d) on the real sizes; judged after every step against a boolean grid and the initial bytes (every pixel, id, dimensions, length, header, padding; out-of-bounds must panic and leave the bytes identical). An exhaustive sweep sets/clears every coordinate of [0,w]x[0,h] on all-off and all-on pages of every box size. Non-trivial = a page with w*h > 0 whose sequence has an effective set and an out-of-bounds probe at the exact edge, or whose height is not a multiple of 8; distinct by hash of the case (sweep: by construction)";
pub const ASSUMPTIONS: &[&str] = &[
    "initial pixel values of a page built over raw bytes are read with the documented layout (byte 4 + x*ceil(h/8) + y/8, bit y%8)",
    "the unused high bits of a column's last byte are not constrained for in-bounds operations (the statement is silent and set_all_pixels fills whole bytes)",
];

#[derive(Serialize, Deserialize, Debug, Clone, Copy, PartialEq, Eq, Hash)]
pub enum Op {
    Set(u32, u32, bool),
    SetAll(bool),
    Get(u32, u32),
}

#[derive(Serialize, Deserialize, Debug, Clone, PartialEq, Eq, Hash)]
pub enum Origin {
    New { id: u8 },
    /// page built with from_bytes over a borrowed buffer whose bytes are h64(seed, index)
    Borrowed { seed: u64 },
    /// borrowed buffer filled with one byte value, with a few single bits flipped (so that whole rows or whole
    /// bytes already have "the requested value" while isolated pixels differ)
    BorrowedSparse { fill: u8, flips: Vec<u16> },
}

#[derive(Serialize, Deserialize, Debug, Clone, PartialEq, Eq, Hash)]
pub struct PageCase {
    pub w: u32,
    pub h: u32,
    pub origin: Origin,
    pub ops: Vec<Op>,
}

fn initial_bytes(c: &PageCase) -> Vec<u8> {
    match c.origin {
        Origin::New { id } => crate::oracle::page::new_bytes(id, c.w, c.h),
        Origin::Borrowed { seed } => (0..total_len(c.w, c.h)).map(|i| h64(&(seed, i as u64)) as u8).collect(),
        Origin::BorrowedSparse { fill, ref flips } => {
            let mut v = vec![fill; total_len(c.w, c.h)];
            let bits = v.len() * 8;
            for f in flips {
                let b = crate::engine::pick_idx(*f, bits);
                v[b / 8] ^= 1 << (b % 8);
            }
            v
        }
    }
}

fn compare_page(page: &Page<'_>, c: &PageCase, grid: &[bool], initial: &[u8], exact_against: Option<&[u8]>) -> Result<(), String> {
    let bytes = page.as_bytes();
    if page.width() != c.w || page.height() != c.h {
        return Err(format!("dimensions changed to {}x{}", page.width(), page.height()));
    }
    if bytes.len() != initial.len() {
        return Err(format!("byte length changed from {} to {}", initial.len(), bytes.len()));
    }
    if page.id() != PageId(initial[0]) {
        return Err(format!("page id changed from {} to {}", initial[0], page.id().0));
    }
    if bytes[..4] != initial[..4] {
        return Err(format!("header changed from {:?} to {:?}", &initial[..4], &bytes[..4]));
    }
    let d = data_len(c.w, c.h);
    if bytes[d..] != initial[d..] {
        return Err(format!("padding changed from {:?} to {:?}", &initial[d..], &bytes[d..]));
    }
    if let Some(prev) = exact_against {
        if bytes != prev {
            return Err("a panicking out-of-bounds call modified the page bytes".into());
        }
    }
    for x in 0..c.w {
        for y in 0..c.h {
            let got = page.get_pixel(x, y);
            let want = grid[(x * c.h + y) as usize];
            if got != want {
                return Err(format!("pixel ({x},{y}) reads {got} but should be {want}"));
            }
        }
    }
    Ok(())
}

pub fn check_page(c: &PageCase, st: &mut Stats) -> Result<(), String> {
    let initial = initial_bytes(c);
    let borrowed_buf = initial.clone();
    let mut page: Page<'_> = match c.origin {
        Origin::New { id } => catch(|| Page::new(PageId(id), c.w, c.h)).map_err(|p| format!("Page::new panicked: {p}"))?,
        Origin::Borrowed { .. } | Origin::BorrowedSparse { .. } => match catch(|| Page::from_bytes(c.w, c.h, &borrowed_buf[..])) {
            Ok(Ok(p)) => p,
            Ok(Err(e)) => return Err(format!("from_bytes rejected a buffer of the padded size: {e}")),
            Err(p) => return Err(format!("from_bytes panicked: {p}")),
        },
    };
    // model
    let mut grid: Vec<bool> = Vec::with_capacity((c.w * c.h) as usize);
    for x in 0..c.w {
        for y in 0..c.h {
            grid.push(read_pixel(&initial, x, y, c.h));
        }
    }
    catch(|| compare_page(&page, c, &grid, &initial, None))
        .map_err(|p| format!("panic while reading a fresh page: {p}"))?
        .map_err(|m| format!("fresh page: {m}"))?;
    st.eval();

    let mut effective_set = false;
    let mut edge_probe = false;
    // a second page of another size is used alternately on the same thread: nothing may leak between page objects
    let (ow, oh) = (c.h % 23 + 1, c.w % 19 + 1);
    let mut other = Page::new(PageId(0xEE), ow, oh);
    for (i, op) in c.ops.iter().enumerate() {
        {
            let (x, y) = ((i as u32 * 7) % ow, (i as u32 * 5) % oh);
            other.set_pixel(x, y, i % 2 == 0);
            if other.get_pixel(x, y) != (i % 2 == 0) {
                return Err(format!("step {i}: a second page ({ow}x{oh}) used alternately does not read back its own pixel ({x},{y})"));
            }
        }
        let before = page.as_bytes().to_vec();
        match *op {
            Op::Set(x, y, v) => {
                let inb = x < c.w && y < c.h;
                let r = catch(|| page.set_pixel(x, y, v));
                match (inb, r) {
                    (true, Ok(())) => {
                        let idx = (x * c.h + y) as usize;
                        if grid[idx] != v {
                            effective_set = true;
                        }
                        grid[idx] = v;
                        catch(|| compare_page(&page, c, &grid, &initial, None))
                            .map_err(|p| format!("step {i} {op:?}: panic while reading back: {p}"))?
                            .map_err(|m| format!("step {i} {op:?}: {m}"))?;
                    }
                    (true, Err(p)) => return Err(format!("step {i} {op:?}: in-bounds set_pixel panicked on a {}x{} page: {p}", c.w, c.h)),
                    (false, Ok(())) => {
                        return Err(format!(
                            "step {i} {op:?}: set_pixel outside a {}x{} page returned instead of panicking",
                            c.w, c.h
                        ))
                    }
                    (false, Err(_)) => {
                        if x == c.w || y == c.h {
                            edge_probe = true;
                        }
                        catch(|| compare_page(&page, c, &grid, &initial, Some(&before)))
                            .map_err(|p| format!("step {i} {op:?}: panic while reading back: {p}"))?
                            .map_err(|m| format!("step {i} {op:?}: {m}"))?;
                    }
                }
            }
            Op::SetAll(v) => {
                catch(|| page.set_all_pixels(v)).map_err(|p| format!("step {i} {op:?}: set_all_pixels panicked: {p}"))?;
                if grid.iter().any(|&g| g != v) {
                    effective_set = true;
                }
                for g in grid.iter_mut() {
                    *g = v;
                }
                catch(|| compare_page(&page, c, &grid, &initial, None))
                    .map_err(|p| format!("step {i} {op:?}: panic while reading back: {p}"))?
                    .map_err(|m| format!("step {i} {op:?}: {m}"))?;
            }
            Op::Get(x, y) => {
                let inb = x < c.w && y < c.h;
                let r = catch(|| page.get_pixel(x, y));
                match (inb, r) {
                    (true, Ok(got)) => {
                        let want = grid[(x * c.h + y) as usize];
                        if got != want {
                            return Err(format!("step {i} {op:?}: reads {got}, should be {want}"));
                        }
                    }
                    (true, Err(p)) => return Err(format!("step {i} {op:?}: in-bounds get_pixel panicked on a {}x{} page: {p}", c.w, c.h)),
                    (false, Ok(got)) => {
                        return Err(format!(
                            "step {i} {op:?}: get_pixel outside a {}x{} page returned {got} instead of panicking",
                            c.w, c.h
                        ))
                    }
                    (false, Err(_)) => {
                        if x == c.w || y == c.h {
                            edge_probe = true;
                        }
                    }
                }
                if page.as_bytes() != &before[..] {
                    return Err(format!("step {i} {op:?}: get_pixel modified the page"));
                }
            }
        }
        st.eval();
    }
    // unused high bits: never *required* to keep their value, but report the class for the evidence
    let d = data_len(c.w, c.h);
    if (4..d).any(|k| pixel_mask(k, c.h) != 0xFF) {
        st.class("height-not-multiple-of-8");
    }
    let nontrivial = (c.w * c.h > 0 && effective_set && edge_probe) || (c.h % 8 != 0 && c.w > 0);
    if nontrivial {
        st.nontrivial(h64(c));
        st.class("nontrivial");
    }
    st.class(match c.origin {
        Origin::New { .. } => "origin:new",
        Origin::Borrowed { .. } => "origin:borrowed-bytes",
        Origin::BorrowedSparse { .. } => "origin:borrowed-sparse-bytes",
    });
    if st.want_sample() && nontrivial && c.ops.len() > 2 {
        st.sample(json!({"w": c.w, "h": c.h, "origin": c.origin, "ops": c.ops.iter().take(8).collect::<Vec<_>>(), "n_ops": c.ops.len()}));
    }
    Ok(())
}

fn dims_strategy(boxw: u32, boxh: u32) -> impl Strategy<Value = (u32, u32)> {
    prop_oneof![
        12 => (0..=boxw, 0..=boxh),
        3 => proptest::sample::select(REAL_SIZES.to_vec()),
        1 => proptest::sample::select(vec![(1u32, 255u32), (255, 1), (300, 9), (1000, 64), (2, 257), (3, 300), (1, 1030)]),
    ]
}

fn coord_strategy(w: u32, h: u32) -> impl Strategy<Value = (u32, u32)> {
    let next8 = (h / 8 + 1) * 8;
    let xs = prop_oneof![
        12 => 0..=w.saturating_sub(1),
        2 => Just(w),
        1 => Just(w + 1),
        1 => Just(u32::MAX),
    ];
    let ys = prop_oneof![
        12 => 0..=h.saturating_sub(1),
        2 => Just(h),
        1 => Just(h + 1),
        1 => Just(next8),
        1 => Just(next8 - 1),
        1 => Just(u32::MAX),
    ];
    (xs, ys)
}

fn case_strategy(boxw: u32, boxh: u32) -> impl Strategy<Value = PageCase> {
    (
        dims_strategy(boxw, boxh),
        prop_oneof![
            3 => any::<u8>().prop_map(|id| Origin::New { id }),
            3 => any::<u64>().prop_map(|seed| Origin::Borrowed { seed }),
            2 => (proptest::sample::select(vec![0x00u8, 0xFF, 0x0F, 0xF0, 0x03, 0xFC]), proptest::collection::vec(any::<u16>(), 0..4)).prop_map(|(fill, flips)| Origin::BorrowedSparse { fill, flips }),
        ],
    )
        .prop_flat_map(|((w, h), origin)| {
            let maxops = if (w as u64) * (h as u64) > 5000 { 6 } else { 40 };
            let op = prop_oneof![
                6 => (coord_strategy(w, h), any::<bool>()).prop_map(|((x, y), v)| Op::Set(x, y, v)),
                1 => any::<bool>().prop_map(Op::SetAll),
                3 => coord_strategy(w, h).prop_map(|(x, y)| Op::Get(x, y)),
            ];
            (Just((w, h, origin)), proptest::collection::vec(op, 0..=maxops))
        })
        .prop_map(|((w, h, origin), ops)| PageCase { w, h, origin, ops })
}

/// out-of-bounds calls made from a destructor while the thread unwinds from an unrelated panic
pub fn check_unwinding(w: u32, h: u32) -> Result<(), String> {
    let r = crate::engine::while_unwinding(move || -> Result<(), String> {
        let mut page = Page::new(PageId(7), w, h);
        page.set_pixel(w - 1, h - 1, true);
        let before = page.as_bytes().to_vec();
        for (x, y) in [(w, 0), (0, h), (w, h), (w + 7, 0), (u32::MAX, u32::MAX), (w - 1, h)] {
            if let Ok(v) = catch(|| page.get_pixel(x, y)) {
                return Err(format!("get_pixel({x},{y}) outside a {w}x{h} page returned {v} instead of panicking (called while the thread was unwinding)"));
            }
            if catch(|| page.set_pixel(x, y, true)).is_ok() {
                return Err(format!("set_pixel({x},{y}) outside a {w}x{h} page returned instead of panicking (called while the thread was unwinding)"));
            }
            if page.as_bytes() != &before[..] {
                return Err(format!("an out-of-bounds call at ({x},{y}) made while the thread was unwinding changed the {w}x{h} page"));
            }
        }
        // in-bounds calls work there as anywhere
        page.set_pixel(0, 0, true);
        if !page.get_pixel(0, 0) || !page.get_pixel(w - 1, h - 1) {
            return Err(format!("in-bounds calls on a {w}x{h} page misbehave while the thread is unwinding"));
        }
        Ok(())
    });
    match r {
        Ok(Ok(())) => Ok(()),
        Ok(Err(m)) => Err(m),
        Err(p) => Err(format!("in-bounds page calls panicked while the thread was unwinding: {p}")),
    }
}

pub fn run(ctx: &Ctx) {
    let (bw, bh) = ctx.tier.pick((24u32, 26u32), (48u32, 40u32));
    // exhaustive sweep: every size in the box, every coordinate in [0,w]x[0,h], set and clear, all-off and all-on
    par_range(ctx, "sweep-box", ((bw + 1) * (bh + 1)) as u64, |i, st| {
        let w = i as u32 / (bh + 1);
        let h = i as u32 % (bh + 1);
        let mut n = 0u64;
        for all_on in [false, true] {
            for x in 0..=w {
                for y in 0..=h {
                    for v in [true, false] {
                        let mut ops = vec![];
                        if all_on {
                            ops.push(Op::SetAll(true));
                        }
                        ops.push(Op::Set(x, y, v));
                        ops.push(Op::Get(x, y));
                        let c = PageCase { w, h, origin: Origin::New { id: (w * 7 + h) as u8 }, ops };
                        check_page(&c, st).map_err(|m| (serde_json::to_value(&c).unwrap(), m))?;
                        n += 1;
                    }
                }
            }
        }
        st.nontrivial_enumerated(n);
        Ok(())
    });
    ctx.part_done("sweep-box", true, json!({"box": [bw, bh], "what": "every size x every coordinate in [0,w]x[0,h] x set/clear x all-off/all-on"}));

    // the real sizes and the large ones: every edge coordinate
    let mut sizes: Vec<(u32, u32)> = REAL_SIZES.to_vec();
    // (incl. pages with more than 256, 2048, 65536 rows or columns and more than 65536 bytes per column: where a row or
    // byte index squeezed into a narrower integer would alias)
    sizes.extend_from_slice(&[(1, 255), (255, 1), (300, 9), (1000, 64), (2, 256), (2, 257), (3, 300), (1, 1030), (3, 2056), (2, 4100), (1, 65544), (1, 524_296), (65_537, 3), (70_000, 1), (300, 257)]);
    par_range(ctx, "edges-real-sizes", sizes.len() as u64, |i, st| {
        let (w, h) = sizes[i as usize];
        let next8 = (h / 8 + 1) * 8;
        for seed in 0..2u64 {
            let mut ops = vec![];
            let mut coords = vec![(w, 0), (0, h), (w, h), (w - 1, h), (w, h - 1), (0, next8 - 1), (0, next8), (u32::MAX, 0), (0, u32::MAX), (w - 1, h - 1), (0, 0), (0, h / 2), (w - 1, h.min(257) - 1), (0, h.saturating_sub(256).min(h - 1))];
            // in-bounds coordinates just past every power of two (an index narrowed to 8/11/16/19 bits aliases there)
            for k in 8..=19u32 {
                if (1u32 << k) + 2 < h {
                    coords.push((0, (1 << k) + 2));
                    coords.push((w - 1, 1 << k));
                }
                if (1u32 << k) + 1 < w {
                    coords.push(((1 << k) + 1, 0));
                    coords.push((1 << k, h - 1));
                }
            }
            for (x, y) in coords {
                ops.push(Op::Set(x, y, true));
                ops.push(Op::Get(x, y));
                ops.push(Op::Set(x, y, false));
            }
            ops.push(Op::SetAll(true));
            ops.push(Op::Set(w - 1, h - 1, false));
            ops.push(Op::SetAll(false));
            let origin = if seed == 0 { Origin::New { id: 9 } } else { Origin::Borrowed { seed: i * 31 + 5 } };
            let c = PageCase { w, h, origin, ops };
            check_page(&c, st).map_err(|m| (serde_json::to_value(&c).unwrap(), m))?;
        }
        Ok(())
    });
    ctx.part_done("edges-real-sizes", true, json!("11 real sizes + 4 large sizes x edge coordinates x new/borrowed"));

    // far-outside coordinates: values whose product with the column stride, or whose narrowing to fewer bits, lands back
    // inside the page (x = 2^k + d, x = ceil(j * 2^32 / s) + d for every small stride s, the same for y, u32::MAX - d).
    // All are out of bounds: each access must panic and leave the page untouched.
    let mut far_sizes: Vec<(u32, u32)> = REAL_SIZES.to_vec();
    far_sizes.extend_from_slice(&[(2, 9), (3, 17), (5, 24), (1, 255), (7, 33), (300, 9), (4, 8), (9, 1)]);
    par_range(ctx, "far-outside-coordinates", far_sizes.len() as u64, |i, st| {
        let (w, h) = far_sizes[i as usize];
        let mut xs: Vec<u32> = vec![];
        let mut ys: Vec<u32> = vec![];
        for k in 3..=31u32 {
            for d in [0, 1, w - 1] {
                xs.push((1u32 << k).wrapping_add(d));
            }
            for d in [0, 1, h - 1, 7, 8] {
                ys.push((1u32 << k).wrapping_add(d));
            }
        }
        for sdiv in 2..=40u64 {
            for j in 1..sdiv {
                let base = ((j << 32) + sdiv - 1) / sdiv;
                for d in [0u64, 1] {
                    xs.push((base + d) as u32);
                    ys.push(((base + d) as u32) & !7);
                    ys.push((base + d) as u32);
                }
            }
        }
        for d in 0..4 {
            xs.push(u32::MAX - d);
            ys.push(u32::MAX - d);
        }
        xs.retain(|&x| x >= w);
        ys.retain(|&y| y >= h);
        xs.sort();
        xs.dedup();
        ys.sort();
        ys.dedup();
        let mut coords: Vec<(u32, u32)> = vec![];
        for &x in &xs {
            for y in [0, 3.min(h - 1), h - 1] {
                coords.push((x, y));
            }
        }
        for &y in &ys {
            for x in [0, w - 1] {
                coords.push((x, y));
            }
        }
        for (n, chunk) in coords.chunks(24).enumerate() {
            let mut ops = vec![];
            for &(x, y) in chunk {
                ops.push(Op::Set(x, y, true));
                ops.push(Op::Get(x, y));
                ops.push(Op::Set(x, y, false));
            }
            let origin = if n % 2 == 0 { Origin::Borrowed { seed: i * 131 + n as u64 } } else { Origin::New { id: n as u8 } };
            let c = PageCase { w, h, origin, ops };
            check_page(&c, st).map_err(|m| (serde_json::to_value(&c).unwrap(), m))?;
        }
        st.nontrivial_enumerated(coords.len() as u64);
        Ok(())
    });
    ctx.part_done("far-outside-coordinates", true, json!({"sizes": far_sizes.len(), "what": "x and y in {2^k+d, ceil(j*2^32/s)+d for s<=40, u32::MAX-d}, all outside the page: each set/get must panic and change nothing"}));

    // set_all_pixels as the FIRST call on a borrowed page that is almost uniform (for every fill / value / flip position class)
    let mut sparse: Vec<PageCase> = vec![];
    for &(w, h) in &[(40u32, 12u32), (23, 10), (30, 10), (5, 9), (3, 17), (90, 7), (4, 20), (2, 33)] {
        for fill in [0x00u8, 0xFF, 0x0F, 0xF0, 0x07, 0xF8] {
            for v in [false, true] {
                for k in 0..12u16 {
                    sparse.push(PageCase { w, h, origin: Origin::BorrowedSparse { fill, flips: vec![k.wrapping_mul(5461).wrapping_add(97 * (w as u16 + h as u16))] }, ops: vec![Op::SetAll(v), Op::Get(0, 0), Op::Get(w - 1, h - 1)] });
                }
            }
        }
    }
    par_range(ctx, "set-all-first-on-almost-uniform-borrowed-pages", sparse.len() as u64, |i, st| {
        let c = &sparse[i as usize];
        check_page(c, st).map_err(|m| (serde_json::to_value(c).unwrap(), m))?;
        st.nontrivial_enumerated(1);
        Ok(())
    });
    ctx.part_done("set-all-first-on-almost-uniform-borrowed-pages", true, json!({"cases": sparse.len()}));

    // zero-width / zero-height pages of extreme height / width: every access is out of bounds and must panic
    let degenerate: Vec<(u32, u32)> = vec![(0, u32::MAX), (0, u32::MAX - 7), (u32::MAX, 0), (0, 300), (0, 0)];
    par_range(ctx, "degenerate-extreme-sizes", degenerate.len() as u64, |i, st| {
        let (w, h) = degenerate[i as usize];
        let mut ops = vec![];
        for (x, y) in [(0u32, 0u32), (0, h.saturating_sub(1)), (w.saturating_sub(1), 0), (0, h), (w, 0), (u32::MAX, u32::MAX), (0, 7), (0, 8)] {
            ops.push(Op::Get(x, y));
            ops.push(Op::Set(x, y, true));
        }
        ops.push(Op::SetAll(true));
        let c = PageCase { w, h, origin: Origin::New { id: 1 }, ops };
        check_page(&c, st).map_err(|m| (serde_json::to_value(&c).unwrap(), m))?;
        st.nontrivial_enumerated(1);
        Ok(())
    });
    ctx.part_done("degenerate-extreme-sizes", true, json!("zero-width / zero-height pages with the other dimension up to u32::MAX"));

    // pages of megabytes (heights beyond 2^21 and 2^24, where narrowed or floating-point index arithmetic goes wrong): a
    // light oracle probes ~130 pixels each - the pixel reads back, exactly its bit changed, nothing else in the page did
    let giants: [(u32, u32); 4] = [(3, 2_800_000), (2, 16_777_217), (16_777_217, 2), (1, 33_554_439)];
    par_range(ctx, "giant-pages", giants.len() as u64, |i, st| {
        let (w, h) = giants[i as usize];
        crate::props::c07::check_giant(w, h, st).map_err(|m| (json!({"giant": [w, h]}), m))?;
        st.nontrivial_enumerated(1);
        Ok(())
    });
    ctx.part_done("giant-pages", true, json!({"sizes": giants, "what": "set/get of ~130 pixels per page against the closed-form bit position, whole page compared"}));

    // out-of-bounds calls made while the thread is unwinding from an unrelated panic (from a destructor): they must panic
    // there too and leave the page alone
    par_range(ctx, "out-of-bounds-while-unwinding", REAL_SIZES.len() as u64, |i, st| {
        let (w, h) = REAL_SIZES[i as usize];
        st.eval();
        st.nontrivial_enumerated(1);
        check_unwinding(w, h).map_err(|m| (json!({"unwinding": [w, h]}), m))
    });
    ctx.part_done("out-of-bounds-while-unwinding", true, json!("the 11 real sizes: six out-of-bounds probes each, made inside a destructor that runs while the thread unwinds from another panic"));

    run_generated(ctx, "sequences", ctx.tier.pick(200_000, 2_000_000), move || case_strategy(bw, bh), |c, st| check_page(c, st));
}

pub fn replay(_part: &str, case: &Value) -> Result<(), String> {
    if let Some(g) = case.get("giant").and_then(|v| v.as_array()) {
        let w = g.first().and_then(|v| v.as_u64()).unwrap_or(1) as u32;
        let h = g.get(1).and_then(|v| v.as_u64()).unwrap_or(1) as u32;
        return crate::props::c07::check_giant(w, h, &mut Stats::new());
    }
    if case.get("unwinding").is_some() {
        let g = case.get("unwinding").and_then(|v| v.as_array()).cloned().unwrap_or_default();
        let w = g.first().and_then(|v| v.as_u64()).unwrap_or(1) as u32;
        let h = g.get(1).and_then(|v| v.as_u64()).unwrap_or(1) as u32;
        return check_unwinding(w, h);
    }
    let c: PageCase = serde_json::from_value(case.clone()).map_err(|e| format!("bad case: {e}"))?;
    check_page(&c, &mut Stats::new())
}

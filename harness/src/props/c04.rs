//! C04 — Frame -> Message -> Frame identity and the protocol table.

use flipdot_core::{Address, Data, Frame, Message, MsgType};
use proptest::prelude::*;
use serde_json::{json, Value};

use crate::engine::{catch, h64, par_range, run_generated, Ctx, Stats};
use crate::props::c01::{frame_strategy, FrameCase};
use crate::repr::{all_addressed, ref_classify, M};

pub const RULE: &str = "frames are enumerated exhaustively over all 256 message types x all 256 first data bytes x data lengths {0,1,2,3,16,255} x 2 tail patterns x 6 addresses, and over all 65536 addresses x every recognised code (35 one-byte codes, the chunk count, data chunks of length 0,1,2,16,255), each with owned and borrowed data, plus generated frames; each is judged by (1) Frame::from(Message::from(f)) == f, (2) a frozen copy of the protocol table (kind, address/offset/count, state/operation, data; everything else Unknown wrapping the same frame), (3) duality: f is recognised as m exactly when Frame::from(m) == f, evaluated against all 32 candidate specific messages. Non-trivial = the frame is recognised, or differs from a recognised frame in exactly one of (type, length, first byte); distinct by construction of the enumeration / by hash for generated frames";
pub const ASSUMPTIONS: &[&str] = &["the frozen table in oracle/table.rs is a correct transcription of the protocol codes; the table-free duality clause runs beside it so a transcription slip shows up as a disagreement between the two oracles"];

fn near_or_recognised(ty: u8, data: &[u8], b0_param: u8) -> bool {
    if !ref_classify(0, ty, data).is_unknown() {
        return true;
    }
    // one of (type, length, first byte) changed
    for t in 0..=6u8 {
        if !ref_classify(0, t, data).is_unknown() {
            return true;
        }
    }
    if !ref_classify(0, ty, &[]).is_unknown() || !ref_classify(0, ty, &[b0_param]).is_unknown() {
        return true;
    }
    if data.len() == 1 && (2..=6).contains(&ty) {
        return true; // some first byte of that type is in the table
    }
    false
}

pub fn check_frame(c: &FrameCase, st: &mut Stats) -> Result<(), String> {
    let want = ref_classify(c.addr, c.ty, &c.data);
    // the same frame value built in different ways: from an owned block, from a borrowed block, and from blocks that came
    // out of the library itself (the data of a frame made from a message, of a decoded frame) - where a block comes from
    // must not matter, only its bytes
    let mut ways: Vec<(String, Frame<'_>)> = vec![
        ("owned".into(), Frame::new(Address(c.addr), MsgType(c.ty), Data::try_new(c.data.clone()).unwrap())),
        ("borrowed".into(), Frame::new(Address(c.addr), MsgType(c.ty), Data::try_new(&c.data[..]).unwrap())),
        ("owned with spare capacity".into(), {
            // a vector that was grown, not sized exactly (len < capacity)
            let mut v: Vec<u8> = Vec::with_capacity(c.data.len() + 13);
            v.extend_from_slice(&c.data);
            Frame::new(Address(c.addr), MsgType(c.ty), Data::try_new(v).unwrap())
        }),
    ];
    if c.data.len() <= 2 {
        let donors = catch(|| {
            let mut v: Vec<(String, Data<'static>)> = vec![];
            let mut cands = all_addressed(c.addr);
            if c.data.len() == 2 {
                cands.push(M::Count(u16::from_be_bytes([c.data[0], c.data[1]])));
                cands.push(M::Count(u16::from_le_bytes([c.data[0], c.data[1]])));
            }
            for cand in cands {
                let f = Frame::from(cand.to_message());
                if f.data().as_ref() == &c.data[..] {
                    v.push((format!("data taken from the frame of {}", cand.short()), f.into_data()));
                }
            }
            v
        })
        .map_err(|p| format!("panic building a frame from a message: {p}"))?;
        for (how, d) in donors {
            ways.push((how, Frame::new(Address(c.addr), MsgType(c.ty), d)));
        }
    }
    if let Ok(Ok(dec)) = catch(|| Frame::from_bytes(&crate::oracle::hex::ref_encode(c.addr ^ 0x0180, c.ty.wrapping_add(3), &c.data))) {
        ways.push(("data taken from a decoded frame".into(), Frame::new(Address(c.addr), MsgType(c.ty), dec.into_data())));
    }
    // the frame that is converted is the very object built above (a clone would be a fresh, exactly sized copy);
    // comparisons use an independently built twin
    let twin = Frame::new(Address(c.addr), MsgType(c.ty), Data::try_new(c.data.clone()).unwrap());
    for (how, converted) in ways {
        let how = how.as_str();
        let f = &twin;
        if converted != *f {
            return Err(format!("two frames built from the same fields ({how}) are not equal"));
        }
        let r = catch(|| -> Result<(), String> {
            let m = Message::from(converted);
            let got = M::from_message(&m);
            let shown = format!("{m:?}");
            // (1) identity - the very message object is converted back, not a copy of it
            let back = Frame::from(m);
            if back != *f {
                return Err(format!("Frame -> Message -> Frame changed the frame ({how}): {f:?} -> {shown} -> {back:?}"));
            }
            // (2) table
            if got != want {
                return Err(format!(
                    "sig=table:type{}:len{}; frame {f:?} ({how}) is interpreted as {} but the protocol table says {}",
                    c.ty,
                    c.data.len().min(2),
                    got.short(),
                    want.short()
                ));
            }
            // (3) duality against Frame::from(candidate)
            let mut candidates = all_addressed(c.addr);
            candidates.push(M::Data { off: c.addr, data: c.data.clone() });
            let mut matching: Vec<M> = vec![];
            for cand in candidates {
                if Frame::from(cand.to_message()) == *f {
                    matching.push(cand);
                }
            }
            match matching.len() {
                0 => {
                    if !got.is_unknown() {
                        return Err(format!(
                            "frame {f:?} ({how}) is recognised as {} although no specific message encodes to it",
                            got.short()
                        ));
                    }
                }
                1 => {
                    if got != matching[0] {
                        return Err(format!(
                            "sig=dual:type{}:len{}; message {} encodes to frame {f:?} ({how}) but that frame is interpreted as {}",
                            c.ty,
                            c.data.len().min(2),
                            matching[0].short(),
                            got.short()
                        ));
                    }
                }
                _ => {
                    return Err(format!(
                        "messages {} and {} share the encoding {f:?}",
                        matching[0].short(),
                        matching[1].short()
                    ))
                }
            }
            Ok(())
        });
        st.eval();
        match r {
            Ok(Ok(())) => {}
            Ok(Err(m)) => return Err(m),
            Err(p) => return Err(format!("panic converting frame <-> message ({how}): {p}")),
        }
    }
    if st.want_sample() && !want.is_unknown() && c.addr > 255 {
        st.sample(json!({"frame": {"addr": c.addr, "type": c.ty, "data_len": c.data.len(), "first": c.data.first()}, "table": want.short()}));
    }
    Ok(())
}

const LENGTHS: [usize; 6] = [0, 1, 2, 3, 16, 255];
const ADDRS: [u16; 6] = [0, 3, 0x7F, 0x80, 0xABCD, 0xFFFF];

pub fn run(ctx: &Ctx) {
    // all types x all first bytes x lengths x tails x addresses -------------------------------
    par_range(ctx, "types-x-first-bytes", 256 * 256, |i, st| {
        let ty = (i >> 8) as u8;
        let b0 = (i & 0xFF) as u8;
        let mut nontrivial = 0u64;
        for &len in &LENGTHS {
            if len == 0 && b0 != 0 {
                continue; // no first byte: enumerate the empty frame once per type
            }
            for tail in [0u8, 1] {
                if len <= 1 && tail == 1 {
                    continue; // no tail bytes
                }
                let mut data = vec![0u8; len];
                for (k, d) in data.iter_mut().enumerate() {
                    *d = if tail == 0 { (k as u8).wrapping_mul(3) } else { 0xFF - k as u8 };
                }
                if len > 0 {
                    data[0] = b0;
                }
                for &addr in &ADDRS {
                    let c = FrameCase { addr, ty, data: data.clone() };
                    check_frame(&c, st).map_err(|m| (serde_json::to_value(&c).unwrap(), m))?;
                    if near_or_recognised(ty, &c.data, b0) {
                        nontrivial += 1;
                    }
                }
            }
        }
        st.nontrivial_enumerated(nontrivial);
        st.class_n("recognised-or-one-field-away", nontrivial);
        Ok(())
    });
    ctx.part_done(
        "types-x-first-bytes",
        true,
        json!("256 types x 256 first bytes x lengths {0,1,2,3,16,255} x 2 tails x 6 addresses x owned/borrowed"),
    );

    // every pair of data bytes under the protocol's own types: a frame one byte longer than a recognised one is unknown
    // whatever the extra byte is (a recognised code followed by a related code is the likeliest slip)
    par_range(ctx, "types-x-two-bytes", 8 * 256, |i, st| {
        let (ty, b0) = ((i / 256) as u8, (i % 256) as u8);
        let mut n = 0u64;
        for b1 in 0..=255u8 {
            for &addr in &[0x0003u16, 0xFF01] {
                let c = FrameCase { addr, ty, data: vec![b0, b1] };
                check_frame(&c, st).map_err(|m| (serde_json::to_value(&c).unwrap(), m))?;
                if near_or_recognised(ty, &c.data, b0) {
                    n += 1;
                }
            }
        }
        st.nontrivial_enumerated(n);
        st.class_n("recognised-or-one-field-away", n);
        Ok(())
    });
    ctx.part_done("types-x-two-bytes", true, json!("types 0..=7 x all 65536 two-byte data blocks x 2 addresses"));

    // data chunks that are uniform except for one byte, at every position of every length: whatever is decided on a
    // word-wise or sampled look at a chunk ("blank", "all ones") must not change the chunk
    par_range(ctx, "chunks-uniform-but-one", 256, |len, st| {
        let len = len as usize;
        let mut n = 0u64;
        for fill in [0x00u8, 0xFF] {
            for pos in 0..len {
                for ty in [0u8, 1, 9] {
                    let mut data = vec![fill; len];
                    data[pos] = 0x7F;
                    let c = FrameCase { addr: 0x0040, ty, data };
                    check_frame(&c, st).map_err(|m| (serde_json::to_value(&c).unwrap(), m))?;
                    n += 1;
                }
            }
        }
        st.nontrivial_enumerated(n);
        Ok(())
    });
    ctx.part_done("chunks-uniform-but-one", true, json!("types {0,1,9} x every length 1..=255 x fill {0x00,0xFF} x one deviating byte at every position"));

    // triples over the bytes the protocol table itself uses (state, request and acknowledgement codes, 0x00, 0xFF)
    {
        let mut codes: Vec<u8> = vec![0x00, 0xFF, 0x01, 0x10];
        for m in all_addressed(3) {
            let (_, _, data) = m.ref_frame();
            codes.extend_from_slice(&data);
        }
        codes.sort_unstable();
        codes.dedup();
        let codes2 = codes.clone();
        let ncodes = codes.len();
        par_range(ctx, "types-x-code-triples", 8 * ncodes as u64, move |i, st| {
            let (ty, b0) = ((i / ncodes as u64) as u8, codes2[(i % ncodes as u64) as usize]);
            for &b1 in &codes2 {
                for &b2 in &codes2 {
                    let c = FrameCase { addr: 3, ty, data: vec![b0, b1, b2] };
                    check_frame(&c, st).map_err(|m| (serde_json::to_value(&c).unwrap(), m))?;
                }
            }
            st.nontrivial_enumerated((codes2.len() * codes2.len()) as u64);
            Ok(())
        });
        ctx.part_done("types-x-code-triples", true, json!({"what": "types 0..=7 x every 3-byte data block over the bytes that occur in the protocol table", "code_bytes": ncodes}));
    }

    // all addresses x every recognised code ------------------------------------------------
    par_range(ctx, "addresses-x-codes", 65536, |i, st| {
        let addr = i as u16;
        let mut n = 0u64;
        for m in all_addressed(addr) {
            let (a, ty, data) = m.ref_frame();
            let c = FrameCase { addr: a, ty, data };
            check_frame(&c, st).map_err(|e| (serde_json::to_value(&c).unwrap(), e))?;
            n += 1;
        }
        for len in [0usize, 1, 2, 16, 255] {
            let c = FrameCase { addr, ty: 0, data: (0..len).map(|k| (k as u8) ^ (addr as u8)).collect() };
            check_frame(&c, st).map_err(|e| (serde_json::to_value(&c).unwrap(), e))?;
            n += 1;
        }
        st.nontrivial_enumerated(n);
        st.class_n("recognised-code-at-address", n);
        Ok(())
    });
    ctx.part_done("addresses-x-codes", true, json!("65536 addresses x (36 recognised fixed-size codes + data chunks of 5 lengths)"));

    // mass probe: very many distinct frames of the recognised types whose data is too long for any code; each must be
    // classified by the table (almost always: unknown, wrapping the same frame). Only volume can meet a recogniser
    // that decides on a lossy digest of the frame instead of its fields; frames are a counter-mode function of
    // (seed, job, k).
    const PROBES_PER_JOB: u64 = 65_536;
    let jobs = ctx.tier.pick(8_000u64, 80_000u64);
    par_range(ctx, "mass-unrecognised", jobs, |job, st| {
        let mut x = h64(&("c04-mass", ctx.seed, job));
        for _ in 0..PROBES_PER_JOB {
            x = x.wrapping_add(0x9E37_79B9_7F4A_7C15);
            let mut z = x;
            z = (z ^ (z >> 30)).wrapping_mul(0xBF58_476D_1CE4_E5B9);
            z = (z ^ (z >> 27)).wrapping_mul(0x94D0_49BB_1331_11EB);
            z ^= z >> 31;
            let ty = 1 + (z % 7) as u8; // 1..=7: the types the table lives in, plus one beyond
            let n = 3 + ((z >> 3) % 6) as usize; // 3..=8 data bytes
            let w = x.wrapping_mul(0xD6E8_FEB8_6659_FD93) ^ (z >> 7);
            let bytes = w.to_le_bytes();
            let addr = (z >> 48) as u16;
            let f = Frame::new(Address(addr), MsgType(ty), Data::try_new(bytes[..n].to_vec()).unwrap());
            let twin = Frame::new(Address(addr), MsgType(ty), Data::try_new(&bytes[..n]).unwrap());
            let fast_ok = match catch(move || Message::from(f)) {
                Ok(Message::Unknown(g)) => g == twin,
                _ => false,
            };
            if !fast_ok {
                let c = FrameCase { addr, ty, data: bytes[..n].to_vec() };
                let mut tmp = Stats::new();
                check_frame(&c, &mut tmp).map_err(|m| (serde_json::to_value(&c).unwrap(), m))?;
            }
        }
        st.evals(PROBES_PER_JOB);
        st.class_n("mass:types1-7,len3-8", PROBES_PER_JOB);
        Ok(())
    });
    ctx.part_done("mass-unrecognised", false, json!({"probes": jobs * PROBES_PER_JOB, "what": "distinct frames of types 1..=7 with 3..=8 data bytes, each judged by the table (unknown wrapping the same frame)"}));

    // with a logger installed at Trace level
    crate::engine::with_logging(|| {
        run_generated(
            ctx,
            "generated+logging",
            ctx.tier.pick(40_000, 400_000),
            || (frame_strategy(), 0u8..=7).prop_map(|(mut f, t)| { f.ty = t; f }),
            |c, st| check_frame(c, st),
        );
    });

    // generated frames (any type, any data) -------------------------------------------------
    run_generated(
        ctx,
        "generated",
        ctx.tier.pick(200_000, 5_000_000),
        || {
            prop_oneof![
                2 => frame_strategy(),
                3 => (frame_strategy(), 0u8..=7).prop_map(|(mut f, t)| { f.ty = t; f }),
                2 => (frame_strategy(), 0u8..=7, any::<u8>()).prop_map(|(mut f, t, b)| { f.ty = t; f.data = vec![b]; f }),
            ]
        },
        |c, st| {
            check_frame(c, st)?;
            if near_or_recognised(c.ty, &c.data, c.data.first().copied().unwrap_or(0)) {
                st.nontrivial(h64(c));
                st.class("generated:recognised-or-near");
            } else {
                st.class("generated:far");
            }
            Ok(())
        },
    );
}

pub fn replay(part: &str, case: &Value) -> Result<(), String> {
    let c: FrameCase = serde_json::from_value(case.clone()).map_err(|e| format!("bad case: {e}"))?;
    if part.ends_with("+logging") {
        return crate::engine::with_logging(|| check_frame(&c, &mut Stats::new()));
    }
    check_frame(&c, &mut Stats::new())
}

//! flipdot-verif: property-based checks for alusch/flipdot (see /verif/DESIGN.md).
//! Library part: engine, oracles, instrumented I/O and the per-property checks; used by the
//! `flipdot-verif` binary and by the libFuzzer targets in /verif/fuzz.
pub mod engine;
pub mod io;
pub mod oracle;
pub mod props;
pub mod repr;

#![no_main]
//! C06: bytes -> page size, origin and operation sequence against the boolean-grid model.
#[path = "common.rs"]
mod common;
use arbitrary::Unstructured;
use flipdot_verif::engine::Stats;
use flipdot_verif::props::c06::{check_page, Op, Origin, PageCase};
use libfuzzer_sys::fuzz_target;

fuzz_target!(|data: &[u8]| {
    common::init();
    let mut u = Unstructured::new(data);
    let (w, h) = match u.int_in_range(0..=9u8).unwrap_or(0) {
        0..=6 => (u.int_in_range(0..=40u32).unwrap_or(1), u.int_in_range(0..=40u32).unwrap_or(1)),
        7 => common::pick(&mut u, &[(90u32, 7u32), (30, 10), (40, 12), (112, 16)]),
        8 => (u.int_in_range(0..=3u32).unwrap_or(1), u.int_in_range(250..=300u32).unwrap_or(256)),
        _ => (u.int_in_range(250..=300u32).unwrap_or(256), u.int_in_range(0..=3u32).unwrap_or(1)),
    };
    let origin = if u.arbitrary().unwrap_or(false) { Origin::New { id: u.arbitrary().unwrap_or(0) } } else { Origin::Borrowed { seed: u.arbitrary::<u16>().unwrap_or(0) as u64 } };
    let mut ops = vec![];
    while !u.is_empty() && ops.len() < 48 {
        let coord = |u: &mut Unstructured<'_>, lim: u32| -> u32 {
            match u.int_in_range(0..=9u8).unwrap_or(0) {
                0..=6 => u.int_in_range(0..=lim.saturating_sub(1)).unwrap_or(0),
                7 => lim,
                8 => (lim / 8 + 1) * 8 - u.int_in_range(0..=1u32).unwrap_or(0),
                _ => common::pick(u, &[lim + 1, 255, 256, 257, u32::MAX]),
            }
        };
        ops.push(match u.int_in_range(0..=9u8).unwrap_or(0) {
            0..=5 => Op::Set(coord(&mut u, w), coord(&mut u, h), u.arbitrary().unwrap_or(true)),
            6 => Op::SetAll(u.arbitrary().unwrap_or(true)),
            _ => Op::Get(coord(&mut u, w), coord(&mut u, h)),
        });
    }
    let case = PageCase { w, h, origin, ops };
    let mut st = Stats::new();
    if let Err(m) = check_page(&case, &mut st) {
        common::violation("C06", "sequences", serde_json::to_value(&case).unwrap(), m);
    }
});

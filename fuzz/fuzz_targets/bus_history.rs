#![no_main]
//! C14: bytes -> population + interleaved history on a VirtualSignBus, replica differential + non-interference.
#[path = "common.rs"]
mod common;
use arbitrary::Unstructured;
use flipdot_verif::engine::Stats;
use flipdot_verif::props::c12::HOp;
use flipdot_verif::props::c14::{check_bus, BusCase};
use libfuzzer_sys::fuzz_target;

fuzz_target!(|data: &[u8]| {
    common::init();
    let mut u = Unstructured::new(data);
    let pool = [0u16, 1, 2, 0x0100, 0x0200, 0xFFFF];
    let n = u.int_in_range(1..=4usize).unwrap_or(1);
    let start = u.int_in_range(0..=5usize).unwrap_or(0);
    let signs: Vec<(u16, bool)> = (0..n).map(|i| (pool[(start + i) % 6], u.arbitrary().unwrap_or(false))).collect();
    let mut addrs: Vec<u16> = signs.iter().map(|s| s.0).collect();
    addrs.extend(signs.iter().map(|s| s.0));
    addrs.push(0x7777);
    let mut ops = vec![];
    while !u.is_empty() && ops.len() < 80 {
        let op = common::decode_hop(&mut u, &addrs);
        if matches!(op, HOp::Repeat { n, .. } if n > 100) {
            continue;
        }
        ops.push(op);
    }
    let case = BusCase { signs, ops, deep: false, past: vec![] };
    let mut st = Stats::new();
    if let Err(m) = check_bus(&case, &mut st) {
        common::violation("C14", "bus-history", serde_json::to_value(&case).unwrap(), m);
    }
});

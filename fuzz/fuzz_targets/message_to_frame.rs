#![no_main]
//! C05: bytes -> one or two specific messages -> wire -> message round trip; different messages must not share an encoding.
#[path = "common.rs"]
mod common;
use arbitrary::Unstructured;
use flipdot_verif::engine::Stats;
use flipdot_verif::props::c05::{check_msg, check_pair, PairCase};
use flipdot_verif::repr::M;
use libfuzzer_sys::fuzz_target;

fn msg(u: &mut Unstructured<'_>) -> M {
    let a: u16 = u.arbitrary().unwrap_or(0);
    match u.int_in_range(0..=11u8).unwrap_or(0) {
        0 => M::Hello(a),
        1 => M::Query(a),
        2 => M::Goodbye(a),
        3 => M::PixelsComplete(a),
        4 => M::Req(a, u.int_in_range(0..=5u8).unwrap_or(0)),
        5 => M::Ack(a, u.int_in_range(0..=5u8).unwrap_or(0)),
        6 => M::Report(a, u.int_in_range(0..=12u8).unwrap_or(0)),
        7 => M::Count(a),
        _ => {
            let n = u.arbitrary::<u8>().unwrap_or(0) as usize;
            let n = n.min(u.len());
            M::Data { off: a, data: u.bytes(n).map(|b| b.to_vec()).unwrap_or_default() }
        }
    }
}

fuzz_target!(|data: &[u8]| {
    common::init();
    let mut u = Unstructured::new(data);
    let pair: bool = u.arbitrary().unwrap_or(false);
    let a = msg(&mut u);
    let mut st = Stats::new();
    if pair {
        let b = msg(&mut u);
        let c = PairCase { a, b };
        if let Err(m) = check_pair(&c, &mut st) {
            common::violation("C05", "pairs", serde_json::to_value(&c).unwrap(), m);
        }
    } else if let Err(m) = check_msg(&a, &mut st) {
        common::violation("C05", "data-generated", serde_json::json!({"msg": a}), m);
    }
});

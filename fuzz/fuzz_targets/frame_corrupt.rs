#![no_main]
//! C02: bytes -> (frame, crlf, up to 3 faults). One fault: rejected or original (the property);
//! stacked faults: only "no panic" is required (two faults can cancel in an 8-bit checksum).
#[path = "common.rs"]
mod common;
use arbitrary::Unstructured;
use flipdot_verif::engine::{catch, Stats};
use flipdot_verif::oracle::hex::ref_encode;
use flipdot_verif::props::c01::FrameCase;
use flipdot_verif::props::c02::{check_mutant, MutantCase, Mutation};
use libfuzzer_sys::fuzz_target;

fn decode_mutation(u: &mut Unstructured<'_>, len: usize) -> Mutation {
    let pos = u.int_in_range(0..=len.saturating_sub(1)).unwrap_or(0);
    match u.int_in_range(0..=4u8).unwrap_or(0) {
        0 => Mutation::Sub { pos, byte: u.arbitrary().unwrap_or(b'0') },
        1 => Mutation::Del { pos },
        2 => Mutation::Dup { pos },
        3 => Mutation::Swap { pos },
        _ => Mutation::Prefix { len: pos },
    }
}

fuzz_target!(|data: &[u8]| {
    common::init();
    let mut u = Unstructured::new(data);
    let addr: u16 = u.arbitrary().unwrap_or(0);
    let ty: u8 = u.arbitrary().unwrap_or(0);
    let crlf: bool = u.arbitrary().unwrap_or(false);
    let n = u.int_in_range(0..=40usize).unwrap_or(0);
    let frame = FrameCase { addr, ty, data: common::bytes_n(&mut u, n) };
    let enc_len = 11 + 2 * frame.data.len() + if crlf { 2 } else { 0 };
    let first = decode_mutation(&mut u, enc_len);
    let case = MutantCase { frame: frame.clone(), crlf, mutation: first };
    let mut st = Stats::new();
    if let Err(m) = check_mutant(&case, &mut st) {
        common::violation("C02", "mutant", serde_json::to_value(&case).unwrap(), m);
    }
    // stacked faults: totality only
    let mut enc = ref_encode(frame.addr, frame.ty, &frame.data);
    if crlf {
        enc.extend_from_slice(b"\r\n");
    }
    for _ in 0..u.int_in_range(0..=2u8).unwrap_or(0) {
        if enc.is_empty() {
            break;
        }
        let pos = u.int_in_range(0..=enc.len() - 1).unwrap_or(0);
        match u.int_in_range(0..=2u8).unwrap_or(0) {
            0 => enc[pos] = u.arbitrary().unwrap_or(0),
            1 => {
                enc.remove(pos);
            }
            _ => enc.insert(pos, u.arbitrary().unwrap_or(0)),
        }
    }
    if let Err(p) = catch(|| flipdot_verif::props::c02::decode_total(&enc)) {
        common::violation("C03", "fuzz-frame-decode", serde_json::json!({"bytes": enc}), format!("decoder panicked on a multiply damaged frame: {p}"));
    }
});

#![no_main]
//! C17 (bridge level): bytes -> up to 6 raw lines through one Odk over a recording bus that replies, stays silent or fails.
#[path = "common.rs"]
mod common;
use arbitrary::Unstructured;
use flipdot_verif::engine::Stats;
use flipdot_verif::props::c16::wire_of;
use flipdot_verif::props::c17::{check_bridge_session, BridgeSession, BusBehaviour};
use libfuzzer_sys::fuzz_target;

fuzz_target!(|data: &[u8]| {
    common::init();
    let mut u = Unstructured::new(data);
    let addrs = [0u16, 3, 0x0100, 0xFFFF];
    let mut lines = vec![];
    while !u.is_empty() && lines.len() < 6 {
        let line = match u.int_in_range(0..=5u8).unwrap_or(0) {
            0..=2 => wire_of(&common::decode_msg(&mut u, &addrs)),
            3 => {
                let mut w = wire_of(&common::decode_msg(&mut u, &addrs));
                if !w.is_empty() {
                    let i = u.int_in_range(0..=w.len() - 1).unwrap_or(0);
                    w[i] = u.arbitrary().unwrap_or(b':');
                }
                w
            }
            _ => {
                let n = u.int_in_range(0..=40usize).unwrap_or(0);
                common::bytes_n(&mut u, n)
            }
        };
        let bus = match u.int_in_range(0..=4u8).unwrap_or(0) {
            0 | 1 => BusBehaviour::Reply(common::decode_msg(&mut u, &addrs)),
            2 | 3 => BusBehaviour::Silent,
            _ => BusBehaviour::Fail,
        };
        lines.push((line, bus));
    }
    let interrupt_every = if u.int_in_range(0..=3u8).unwrap_or(0) == 0 { Some(u.int_in_range(2..=8u8).unwrap_or(2)) } else { None };
    let write_fails_at_reply = if u.int_in_range(0..=4u8).unwrap_or(1) == 0 { Some(u.int_in_range(0..=2u8).unwrap_or(0)) } else { None };
    let case = BridgeSession { lines, interrupt_every, write_fails_at_reply };
    let mut st = Stats::new();
    if let Err(m) = check_bridge_session(&case, &mut st) {
        common::violation("C17", "bridge-session", serde_json::to_value(&case).unwrap(), m);
    }
});

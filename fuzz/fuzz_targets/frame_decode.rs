#![no_main]
//! C03: raw bytes -> Frame::from_bytes vs the independent parser (same oracle as the harness).
#[path = "common.rs"]
mod common;
use flipdot_verif::engine::Stats;
use flipdot_verif::props::c03::check_bytes;
use libfuzzer_sys::fuzz_target;

fuzz_target!(|data: &[u8]| {
    common::init();
    let mut st = Stats::new();
    if let Err(m) = check_bytes(data, &mut st, false) {
        common::violation("C03", "fuzz-frame-decode", serde_json::json!({"bytes": data}), m);
    }
});

#![no_main]
//! C04: bytes -> frame (biased towards the recognised type range) -> Message -> Frame identity, frozen table and duality.
#[path = "common.rs"]
mod common;
use arbitrary::Unstructured;
use flipdot_verif::engine::Stats;
use flipdot_verif::props::c01::FrameCase;
use flipdot_verif::props::c04::check_frame;
use libfuzzer_sys::fuzz_target;

fuzz_target!(|data: &[u8]| {
    common::init();
    let mut u = Unstructured::new(data);
    let addr: u16 = u.arbitrary().unwrap_or(0);
    let t: u8 = u.arbitrary().unwrap_or(0);
    // three quarters of the inputs land on types 0..=7, where the table lives
    let ty = if t & 0xC0 != 0xC0 { t & 7 } else { t };
    let rest = u.take_rest();
    let n = rest.len().min(255);
    let c = FrameCase { addr, ty, data: rest[..n].to_vec() };
    let mut st = Stats::new();
    if let Err(m) = check_frame(&c, &mut st) {
        common::violation("C04", "frames", serde_json::to_value(&c).unwrap(), m);
    }
});

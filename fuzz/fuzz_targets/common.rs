//! Shared by all targets: panic-hook setup, violation reporting, byte -> structure decoding.
#![allow(dead_code)]

use arbitrary::Unstructured;
use flipdot_verif::engine::{install_quiet_panic_hook, write_replay, Failure};
use flipdot_verif::props::c12::{tiny_block, tiny_block_max3000, Block, Fault, HOp};
use flipdot_verif::repr::M;

pub fn init() {
    static ONCE: std::sync::Once = std::sync::Once::new();
    // libfuzzer-sys installs a hook that aborts on every panic; the oracles need catch_unwind to work
    ONCE.call_once(install_quiet_panic_hook);
}

/// Write the JSON replay, print the VIOLATION line and abort (libFuzzer then saves the raw input as well).
pub fn violation(property: &str, part: &str, case: serde_json::Value, message: String) -> ! {
    let path = write_replay(property, &Failure { part: part.to_string(), case, message: message.clone() });
    println!("  failing part: {part}  message: {message}");
    println!("VIOLATION property={property} replay={}", path.display());
    std::process::abort();
}

pub fn pick<T: Clone>(u: &mut Unstructured<'_>, items: &[T]) -> T {
    let i = u.int_in_range(0..=items.len() - 1).unwrap_or(0);
    items[i].clone()
}

pub fn bytes_n(u: &mut Unstructured<'_>, n: usize) -> Vec<u8> {
    (0..n).map(|_| u.arbitrary::<u8>().unwrap_or(0)).collect()
}

pub fn decode_block(u: &mut Unstructured<'_>) -> Block {
    match u.int_in_range(0..=9u8).unwrap_or(0) {
        0..=3 => Block::Real(u.int_in_range(0..=10u8).unwrap_or(0)),
        4 | 5 => Block::Raw(tiny_block(12, 8)),
        6 => Block::Raw(tiny_block_max3000(20, 8, 8)),
        7 => Block::Raw(tiny_block(0, 8)),
        8 => {
            let mut b = bytes_n(u, 16);
            b[0] = if b[0] & 1 == 0 { 4 } else { 8 };
            Block::Raw(b)
        }
        _ => Block::Raw(bytes_n(u, 16)),
    }
}

pub fn decode_fault(u: &mut Unstructured<'_>) -> Fault {
    match u.int_in_range(0..=11u8).unwrap_or(0) {
        0..=4 => Fault::None,
        5 => Fault::Drop(u.arbitrary().unwrap_or(0)),
        6 => Fault::Short(u.arbitrary().unwrap_or(0)),
        7 => Fault::Long(u.arbitrary().unwrap_or(0)),
        8 => Fault::Extra(u.arbitrary().unwrap_or(0)),
        9 => Fault::CountDelta(u.arbitrary().unwrap_or(1)),
        10 => Fault::EarlyOffset0(u.arbitrary().unwrap_or(0)),
        _ => Fault::NoCount,
    }
}

pub fn decode_msg(u: &mut Unstructured<'_>, addrs: &[u16]) -> M {
    let a = pick(u, addrs);
    match u.int_in_range(0..=13u8).unwrap_or(0) {
        0 => M::Hello(a),
        1 => M::Query(a),
        2 => M::Goodbye(a),
        3 => M::PixelsComplete(a),
        4 | 5 | 6 => M::Req(a, u.int_in_range(0..=5u8).unwrap_or(0)),
        7 => M::Report(a, u.int_in_range(0..=12u8).unwrap_or(0)),
        8 => M::Ack(a, u.int_in_range(0..=5u8).unwrap_or(0)),
        9 | 10 => {
            let off = pick(u, &[0u16, 0, 16, 32, 0xFFF0, 1]);
            let data = match u.int_in_range(0..=5u8).unwrap_or(0) {
                0 | 1 => decode_block(u).bytes(),
                2 => vec![0xAB; 16],
                3 => {
                    let n = pick(u, &[0usize, 1, 15, 17, 32, 255]);
                    bytes_n(u, n)
                }
                _ => {
                    let n = u.int_in_range(0..=40usize).unwrap_or(0);
                    bytes_n(u, n)
                }
            };
            M::Data { off, data }
        }
        11 | 12 => M::Count(pick(u, &[0u16, 1, 2, 3, 4, 5, 6, 0xFFFF])),
        _ => {
            let ty = if u.arbitrary().unwrap_or(false) { u.int_in_range(0..=7u8).unwrap_or(7) } else { u.int_in_range(7..=255u8).unwrap_or(7) };
            let n = u.int_in_range(0..=3usize).unwrap_or(1);
            M::Unknown { addr: a, ty, data: bytes_n(u, n) }
        }
    }
}

pub fn decode_hop(u: &mut Unstructured<'_>, addrs: &[u16]) -> HOp {
    match u.int_in_range(0..=11u8).unwrap_or(0) {
        0..=5 => HOp::Msg(decode_msg(u, addrs)),
        6 | 7 => HOp::Config { addr: pick(u, addrs), block: decode_block(u), fault: decode_fault(u) },
        8 | 9 => HOp::Pixels {
            addr: pick(u, addrs),
            pages: u.int_in_range(0..=3u8).unwrap_or(0),
            seed: u.arbitrary::<u8>().unwrap_or(0) as u64,
            fault: decode_fault(u),
            complete: u.arbitrary().unwrap_or(true),
        },
        10 => HOp::Flip { addr: pick(u, addrs), steps: u.int_in_range(1..=13u8).unwrap_or(1) },
        _ => HOp::Repeat { msg: decode_msg(u, addrs), n: pick(u, &[2u32, 3, 5, 7, 16, 40, 200, 65536]) },
    }
}

#![no_main]
//! C09: bytes -> sequence of transfers (configure / send_pages with arbitrary page sizes, retry verdicts, withheld
//! acknowledgements) on one Sign object over the recording bus.
#[path = "common.rs"]
mod common;
use arbitrary::Unstructured;
use flipdot_verif::engine::Stats;
use flipdot_verif::props::c09::{check_transfer, check_transfer_seq, TransferCase, TransferSeq};
use libfuzzer_sys::fuzz_target;

fn one(u: &mut Unstructured<'_>) -> TransferCase {
    let pages = if u.int_in_range(0..=4u8).unwrap_or(0) == 0 {
        None
    } else {
        let n = u.int_in_range(0..=4usize).unwrap_or(1);
        Some((0..n).map(|_| common::pick(u, &[1u16, 1, 2, 3, 4, 6, 9, 16, 255, 256, 257])).collect())
    };
    let nv = u.int_in_range(1..=4usize).unwrap_or(1);
    TransferCase {
        addr: common::pick(u, &[0u16, 3, 0x0100, 0xFFFF]),
        sign_type: u.int_in_range(0..=10u8).unwrap_or(0),
        pages,
        seed: u.arbitrary::<u8>().unwrap_or(0) as u64,
        verdicts: (0..nv).map(|_| u.arbitrary().unwrap_or(true)).collect(),
        bad_ack: if u.int_in_range(0..=4u8).unwrap_or(0) == 0 { Some((u.int_in_range(0..=2usize).unwrap_or(0), u.int_in_range(0..=3u8).unwrap_or(0))) } else { None },
        if_needed_hello: if u.int_in_range(0..=3u8).unwrap_or(0) == 0 { Some(u.int_in_range(0..=12u8).unwrap_or(0)) } else { None },
        dup_pages: u.int_in_range(0..=4u8).unwrap_or(0) == 0,
        bus_error_at: if u.int_in_range(0..=5u8).unwrap_or(0) == 0 { Some((u.int_in_range(0..=40usize).unwrap_or(0), u.int_in_range(0..=3u8).unwrap_or(0))) } else { None },
        in_progress_at: if u.int_in_range(0..=7u8).unwrap_or(1) == 0 { Some(u.int_in_range(0..=2usize).unwrap_or(0)) } else { None },
        // relation to the previous operation of a sequence (the sequence decoder below copies the page list)
        relation: u.int_in_range(0..=7u8).unwrap_or(0).saturating_sub(4),
        slow_call: None,
    }
}

fuzz_target!(|data: &[u8]| {
    common::init();
    let mut u = Unstructured::new(data);
    let mut st = Stats::new();
    if u.arbitrary().unwrap_or(false) {
        let mut case = one(&mut u);
        case.relation = 0;
        if let Err(m) = check_transfer(&case, &mut st) {
            common::violation("C09", "generated", serde_json::to_value(&case).unwrap(), m);
        }
    } else {
        let n = u.int_in_range(2..=4usize).unwrap_or(2);
        let mut ops: Vec<TransferCase> = vec![];
        for _ in 0..n {
            let mut op = one(&mut u);
            match (ops.last(), op.relation) {
                (Some(prev), 1..=3) if prev.pages.is_some() => {
                    op.pages = prev.pages.clone();
                    op.seed = prev.seed;
                    op.dup_pages = prev.dup_pages;
                }
                _ => op.relation = 0,
            }
            ops.push(op);
        }
        let case = TransferSeq { ops };
        if let Err(m) = check_transfer_seq(&case, &mut st) {
            common::violation("C09", "sequences", serde_json::to_value(&case).unwrap(), m);
        }
    }
});

#![no_main]
//! C16: bytes -> session of exchanges on one SerialSignBus over an instrumented port (no data chunks and no
//! in-progress reports, so that nothing sleeps).
#[path = "common.rs"]
mod common;
use arbitrary::Unstructured;
use flipdot_verif::engine::Stats;
use flipdot_verif::props::c16::{check_session, Line, SessionCase};
use flipdot_verif::repr::M;
use libfuzzer_sys::fuzz_target;

fuzz_target!(|data: &[u8]| {
    common::init();
    let mut u = Unstructured::new(data);
    let crlf: bool = u.arbitrary().unwrap_or(true);
    let timeout_at_end: bool = u.arbitrary().unwrap_or(false);
    let read_error_at = if u.int_in_range(0..=3u8).unwrap_or(0) == 0 { Some(u.int_in_range(0..=80usize).unwrap_or(0)) } else { None };
    let addrs = [3u16, 0xFFFF, 0x0100];
    let n = u.int_in_range(1..=6usize).unwrap_or(1);
    let mut msgs = vec![];
    for _ in 0..n {
        let a = common::pick(&mut u, &addrs);
        msgs.push(match u.int_in_range(0..=9u8).unwrap_or(0) {
            0 | 1 => M::Hello(a),
            2 | 3 => M::Query(a),
            4 | 5 | 6 => M::Req(a, u.int_in_range(0..=5u8).unwrap_or(0)),
            7 => M::Goodbye(a),
            8 => M::PixelsComplete(a),
            _ => M::Count(u.arbitrary().unwrap_or(0)),
        });
    }
    let mut tape = vec![];
    while !u.is_empty() && tape.len() < 8 {
        let a = common::pick(&mut u, &addrs);
        tape.push(match u.int_in_range(0..=9u8).unwrap_or(0) {
            0..=3 => Line::Msg(M::Report(a, common::pick(&mut u, &[0u8, 1, 2, 3, 4, 5, 6, 7, 9, 11, 12]))),
            4 | 5 => Line::Msg(M::Ack(a, u.int_in_range(0..=5u8).unwrap_or(0))),
            6 => Line::Msg(M::Unknown { addr: a, ty: 0x66, data: vec![0x5A; common::pick(&mut u, &[0usize, 1, 254, 255])] }),
            7 => Line::Raw(vec![]),
            _ => {
                let n = u.int_in_range(0..=20usize).unwrap_or(0);
                Line::Raw(common::bytes_n(&mut u, n))
            }
        });
    }
    let case = SessionCase { msgs, tape, crlf, timeout_at_end, read_error_at };
    let mut st = Stats::new();
    if let Err(m) = check_session(&case, &mut st) {
        common::violation("C16", "session-generated", serde_json::to_value(&case).unwrap(), m);
    }
});

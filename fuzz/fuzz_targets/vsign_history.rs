#![no_main]
//! C12 + C13: bytes -> message history on one virtual sign, compared step by step with the reference state machine.
#[path = "common.rs"]
mod common;
use arbitrary::Unstructured;
use flipdot_verif::engine::Stats;
use flipdot_verif::props::c12::{check_history, HistoryCase, Mode};
use libfuzzer_sys::fuzz_target;

fuzz_target!(|data: &[u8]| {
    common::init();
    let mut u = Unstructured::new(data);
    let addr = common::pick(&mut u, &[0u16, 3, 0x21, 0x0100, 0xFFFF]);
    let automatic: bool = u.arbitrary().unwrap_or(false);
    let addrs = [addr, addr, addr, addr, addr.wrapping_add(1), addr ^ 0x0100];
    let mut ops = vec![];
    let mut repeats = 0;
    while !u.is_empty() && ops.len() < 96 {
        let op = common::decode_hop(&mut u, &addrs);
        if let flipdot_verif::props::c12::HOp::Repeat { n, .. } = &op {
            if *n > 1000 {
                repeats += 1;
                if repeats > 1 {
                    continue; // keep one execution cheap
                }
            }
        }
        ops.push(op);
    }
    let case = HistoryCase { addr, automatic, ops };
    let mut st = Stats::new();
    if let Err(m) = check_history(&case, Mode::C13, &mut st) {
        // a panic is C12's finding, a divergence C13's
        let prop = if m.contains("panicked") { "C12" } else { "C13" };
        common::violation(prop, "walk", serde_json::to_value(&case).unwrap(), m);
    }
});

#![no_main]
//! C10 + C11: bytes -> (operations on one Sign object, sign type, address, reply script); judged by the reference
//! controller (C10) and by the transcript invariants (C11).
#[path = "common.rs"]
mod common;
use arbitrary::Unstructured;
use flipdot_verif::engine::Stats;
use flipdot_verif::oracle::controller::{OpKind, Reply};
use flipdot_verif::props::c10::{check_sequence, Choice, ConvCase, SeqCase};
use flipdot_verif::repr::M;
use libfuzzer_sys::fuzz_target;

const OPS: [OpKind; 6] = [OpKind::Configure, OpKind::ConfigureIfNeeded, OpKind::SendPages, OpKind::ShowLoadedPage, OpKind::LoadNextPage, OpKind::ShutDown];

fuzz_target!(|data: &[u8]| {
    common::init();
    let mut u = Unstructured::new(data);
    let addr = common::pick(&mut u, &[0u16, 3, 0x7F, 0x1234, 0xFFFF]);
    let foreign = [addr.wrapping_add(1), addr ^ 0x0100, 0];
    let op = common::pick(&mut u, &OPS);
    let n_then = u.int_in_range(0..=3usize).unwrap_or(0);
    let then: Vec<OpKind> = (0..n_then).map(|_| common::pick(&mut u, &OPS)).collect();
    let sign_type = common::pick(&mut u, &[5u8, 4, 3, 10, 2, 8]);
    let pages = u.int_in_range(0..=3u8).unwrap_or(0);
    let mut script = vec![];
    while !u.is_empty() && script.len() < 160 {
        script.push(match u.int_in_range(0..=15u8).unwrap_or(0) {
            0..=9 => Choice::Happy(u.int_in_range(0..=5u8).unwrap_or(0)),
            10 => Choice::Symbol(Reply::Msg(M::Report(addr, u.int_in_range(0..=12u8).unwrap_or(0)))),
            11 => Choice::Symbol(Reply::Msg(M::Report(common::pick(&mut u, &foreign), u.int_in_range(0..=12u8).unwrap_or(0)))),
            12 => Choice::Symbol(Reply::Msg(M::Ack(addr, u.int_in_range(0..=5u8).unwrap_or(0)))),
            13 => Choice::Symbol(Reply::Msg(M::Ack(common::pick(&mut u, &foreign), u.int_in_range(0..=5u8).unwrap_or(0)))),
            14 => match u.int_in_range(0..=3u8).unwrap_or(0) {
                0 => Choice::Symbol(Reply::Echo),
                1 => Choice::Symbol(Reply::None),
                // a controller-type message carrying another address
                _ => {
                    let a = common::pick(&mut u, &foreign);
                    Choice::Symbol(Reply::Msg(match u.int_in_range(0..=4u8).unwrap_or(0) {
                        0 => M::Hello(a),
                        1 => M::Query(a),
                        2 => M::Req(a, u.int_in_range(0..=5u8).unwrap_or(0)),
                        3 => M::PixelsComplete(a),
                        _ => M::Goodbye(a),
                    }))
                }
            },
            _ => Choice::Symbol(Reply::BusError),
        });
    }
    let bus_error_kind = u.int_in_range(0..=9u8).unwrap_or(0);
    let case = SeqCase { base: ConvCase { op, addr, sign_type, pages, page_seed: u.int_in_range(0..=7u8).unwrap_or(1) as u64, script, bus_error_kind }, then };
    let mut st = Stats::new();
    if let Err(m) = check_sequence(&case, false, &mut st) {
        common::violation("C10", "sequences", serde_json::to_value(&case).unwrap(), m);
    }
    if let Err(m) = check_sequence(&case, true, &mut st) {
        common::violation("C11", "sequences", serde_json::to_value(&case).unwrap(), m);
    }
});

#![no_main]
//! C08: bytes -> scenario (prior traffic, entry point, rounds of pages and show/load calls) on the real controller
//! and the real virtual sign.
#[path = "common.rs"]
mod common;
use arbitrary::Unstructured;
use flipdot_verif::engine::Stats;
use flipdot_verif::props::c08::{check_scenario, PageSpec, Round, Scenario};
use flipdot_verif::props::c12::HOp;
use libfuzzer_sys::fuzz_target;

fn spec(u: &mut Unstructured<'_>) -> PageSpec {
    let id = u.int_in_range(0..=3u8).unwrap_or(0);
    match u.int_in_range(0..=3u8).unwrap_or(0) {
        0 => PageSpec::Blank(id),
        1 => PageSpec::Full(id),
        2 => PageSpec::Bits(id, u.arbitrary::<u8>().unwrap_or(0) as u64),
        _ => PageSpec::Raw(u.arbitrary::<u8>().unwrap_or(0) as u64),
    }
}

fuzz_target!(|data: &[u8]| {
    common::init();
    let mut u = Unstructured::new(data);
    // small sign types keep one execution cheap
    let sign_type = common::pick(&mut u, &[5u8, 4, 3, 10, 2]);
    let automatic: bool = u.arbitrary().unwrap_or(false);
    let addr = common::pick(&mut u, &[0u16, 3, 0x0100, 0xFFFF]);
    let bystander = if u.arbitrary().unwrap_or(false) { Some((addr ^ 0x0101, u.arbitrary().unwrap_or(false))) } else { None };
    let directed = if u.arbitrary().unwrap_or(true) { Some((u.int_in_range(0..=12u8).unwrap_or(0), u.arbitrary().unwrap_or(0))) } else { None };
    let use_configure_if_needed: bool = u.arbitrary().unwrap_or(false);
    let bystander_active: bool = u.arbitrary().unwrap_or(false);
    let n_rounds = u.int_in_range(1..=3usize).unwrap_or(1);
    let mut rounds = vec![];
    for _ in 0..n_rounds {
        let np = u.int_in_range(0..=3usize).unwrap_or(1);
        let nc = u.int_in_range(0..=3usize).unwrap_or(0);
        rounds.push(Round { pages: (0..np).map(|_| spec(&mut u)).collect(), calls: (0..nc).map(|_| u.arbitrary().unwrap_or(true)).collect() });
    }
    let epilogue = if u.int_in_range(0..=3u8).unwrap_or(0) == 0 { Some((common::pick(&mut u, &[5u8, 4, 3, 10]), vec![spec(&mut u)])) } else { None };
    let addrs = [addr, addr, addr, addr ^ 0x0101, addr.wrapping_add(1)];
    let mut prior = vec![];
    while !u.is_empty() && prior.len() < 40 {
        let op = common::decode_hop(&mut u, &addrs);
        if matches!(op, HOp::Repeat { n, .. } if n > 60) {
            continue;
        }
        prior.push(op);
    }
    let case = Scenario { sign_type, automatic, addr, bystander, directed, prior, use_configure_if_needed, rounds, epilogue, bystander_active };
    let mut st = Stats::new();
    if let Err(m) = check_scenario(&case, &mut st) {
        common::violation("C08", "scenarios", serde_json::to_value(&case).unwrap(), m);
    }
});

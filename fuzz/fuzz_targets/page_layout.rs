#![no_main]
//! C07: bytes -> page dimensions, content seed and edits -> byte layout closed form, header, from_bytes round trip.
#[path = "common.rs"]
mod common;
use arbitrary::Unstructured;
use flipdot_verif::engine::Stats;
use flipdot_verif::props::c07::{check_edited, check_size, EditedCase, SizeCase};
use libfuzzer_sys::fuzz_target;

fuzz_target!(|data: &[u8]| {
    common::init();
    let mut u = Unstructured::new(data);
    let (w, h) = match u.int_in_range(0..=9u8).unwrap_or(0) {
        0..=5 => (u.int_in_range(0..=48u32).unwrap_or(1), u.int_in_range(0..=40u32).unwrap_or(1)),
        6 => common::pick(&mut u, &[(90u32, 7u32), (30, 10), (40, 12), (112, 16), (96, 8), (120, 7)]),
        7 => (u.int_in_range(0..=130u32).unwrap_or(1), u.int_in_range(0..=24u32).unwrap_or(1)),
        8 => (u.int_in_range(0..=4u32).unwrap_or(1), u.int_in_range(240..=300u32).unwrap_or(256)),
        _ => (u.int_in_range(240..=300u32).unwrap_or(256), u.int_in_range(0..=4u32).unwrap_or(1)),
    };
    let mut st = Stats::new();
    if u.arbitrary().unwrap_or(false) {
        let c = SizeCase { w, h, id: u.arbitrary().unwrap_or(0) };
        if let Err(m) = check_size(&c, &mut st) {
            common::violation("C07", "sizes", serde_json::to_value(&c).unwrap(), m);
        }
        return;
    }
    let seed = u.arbitrary::<u32>().unwrap_or(0) as u64;
    let origin = u.arbitrary::<u8>().unwrap_or(0) % 3;
    let mut fills = vec![];
    for _ in 0..(u.arbitrary::<u8>().unwrap_or(0) % 4) {
        fills.push((u.arbitrary().unwrap_or(0), u.arbitrary().unwrap_or(true)));
    }
    let mut sets = vec![];
    while !u.is_empty() && sets.len() < 64 {
        sets.push((u.arbitrary().unwrap_or(0), u.arbitrary().unwrap_or(0), u.arbitrary().unwrap_or(true)));
    }
    let c = EditedCase { w, h, seed, sets, fills, origin, probes: if seed & 1 == 1 { vec![(seed >> 8) as u16] } else { vec![] } };
    if let Err(m) = check_edited(&c, &mut st) {
        common::violation("C07", "edited", serde_json::to_value(&c).unwrap(), m);
    }
});

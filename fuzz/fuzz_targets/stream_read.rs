#![no_main]
//! C15: bytes -> (stream, read script) for Frame::read on the instrumented reader.
#[path = "common.rs"]
mod common;
use arbitrary::Unstructured;
use flipdot_verif::engine::Stats;
use flipdot_verif::props::c15::{check_read, IoKind, RStep, ReadCase};
use libfuzzer_sys::fuzz_target;

fuzz_target!(|data: &[u8]| {
    common::init();
    let mut u = Unstructured::new(data);
    let timeout_at_end: bool = u.arbitrary().unwrap_or(false);
    let n_steps = u.int_in_range(0..=24usize).unwrap_or(0);
    let mut script = vec![];
    for _ in 0..n_steps {
        script.push(match u.int_in_range(0..=9u8).unwrap_or(0) {
            0..=5 => RStep::Serve(u.int_in_range(1..=40usize).unwrap_or(1)),
            6 | 7 => RStep::Serve(1),
            8 => RStep::Interrupted,
            _ => RStep::Error(common::pick(&mut u, &[IoKind::Other, IoKind::TimedOut, IoKind::WouldBlock, IoKind::UnexpectedEof])),
        });
    }
    let stream: Vec<u8> = u.take_rest().to_vec();
    if stream.len() > 400 {
        return;
    }
    let case = ReadCase { stream, script, timeout_at_end };
    let mut st = Stats::new();
    if let Err(m) = check_read(&case, &mut st) {
        common::violation("C15", "read", serde_json::to_value(&case).unwrap(), m);
    }
});

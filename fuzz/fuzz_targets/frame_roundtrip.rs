#![no_main]
//! C01: bytes -> (address, type, data) -> encode/decode four ways against the independent encoder; long inputs also drive Data::try_new.
#[path = "common.rs"]
mod common;
use arbitrary::Unstructured;
use flipdot_verif::engine::Stats;
use flipdot_verif::props::c01::{check_frame, check_try_new, FrameCase, TryNewCase};
use libfuzzer_sys::fuzz_target;

fuzz_target!(|data: &[u8]| {
    common::init();
    let mut u = Unstructured::new(data);
    let addr: u16 = u.arbitrary().unwrap_or(0);
    let ty: u8 = u.arbitrary().unwrap_or(0);
    let mode: u8 = u.arbitrary().unwrap_or(0);
    let rest = u.take_rest();
    let mut st = Stats::new();
    if mode & 0x0F == 0x0F {
        // a length taken from the input, mostly around the 255 limit
        let sel = rest.first().copied().unwrap_or(0) as usize;
        let len = match mode >> 4 {
            0..=7 => 240 + sel % 40,
            8..=11 => sel * 300,
            _ => rest.len(),
        };
        let c = TryNewCase { len, fill: ty };
        if let Err(m) = check_try_new(&c, &mut st) {
            common::violation("C01", "try_new", serde_json::to_value(&c).unwrap(), m);
        }
        return;
    }
    let n = rest.len().min(255);
    let c = FrameCase { addr, ty, data: rest[..n].to_vec() };
    if let Err(m) = check_frame(&c, &mut st) {
        common::violation("C01", "frames", serde_json::to_value(&c).unwrap(), m);
    }
});

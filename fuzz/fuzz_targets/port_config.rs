#![no_main]
//! C20: bytes -> prior port settings, entry point, injected settings failure -> configured-or-failed oracle.
#[path = "common.rs"]
mod common;
use arbitrary::Unstructured;
use flipdot_verif::engine::Stats;
use flipdot_verif::props::c20::{check_port, PortCase};
use libfuzzer_sys::fuzz_target;

fuzz_target!(|data: &[u8]| {
    common::init();
    let mut u = Unstructured::new(data);
    let mut prior = [0usize; 5];
    for p in prior.iter_mut() {
        *p = u.arbitrary::<u8>().unwrap_or(0) as usize;
    }
    let c = PortCase {
        prior,
        entry: u.int_in_range(0..=2u8).unwrap_or(0),
        timeout_ms: if u.arbitrary().unwrap_or(false) { u.arbitrary().unwrap_or(1) } else { common::pick(&mut u, &[0u64, 1, 250, 5_000, 3_600_000, 2_147_483_647, 2_147_483_648, u64::MAX]) },
        fail: u.int_in_range(0..=4u8).unwrap_or(0),
        kind: u.int_in_range(0..=5usize).unwrap_or(0),
        transient: u.arbitrary().unwrap_or(false),
        hide_baud: u.arbitrary().unwrap_or(false),
        write_resets_timeout: u.arbitrary().unwrap_or(false),
    };
    let mut st = Stats::new();
    if let Err(m) = check_port(&c, &mut st) {
        common::violation("C20", "product", serde_json::to_value(&c).unwrap(), m);
    }
});

#!/usr/bin/env bash
# The process environment is an input too. Names of environment variables that the library's own sources read (a
# dictionary extracted from the tree under test, as fuzzers extract dictionaries from binaries) are set to a few
# adversarial values and the check is run again under each; the property has to hold whatever the environment says.
# On a tree that reads no environment variable (the unchanged one) this costs nothing.
# usage: tools/env_dictionary.sh <ID> <binary> [args...]      exit 0 / 1 (VIOLATION printed) / 2
id="$1"; bin="$2"; shift 2
# (a) names passed literally to var()/var_os(); (b) in files that use std::env at all, every string literal that looks
# like an environment variable name (the name may sit in a constant)
files=$(grep -rlE '\benv::(var|var_os|vars|vars_os)\b|\buse std::env\b' --include='*.rs' /repo/src /repo/libs/*/src 2>/dev/null)
names=$( { grep -rhoE '\b(var|var_os)\(\s*"[A-Za-z_][A-Za-z0-9_]*"' --include='*.rs' /repo/src /repo/libs/*/src 2>/dev/null | sed -E 's/.*"([^"]+)"/\1/';
           [ -n "$files" ] && grep -hoE '"[A-Z][A-Z0-9_]{3,}"' $files | tr -d '"'; } \
        | grep -vE '^(RUST_LOG|RUST_BACKTRACE|CARGO_.*|HOME|PATH|TERM)$' | sort -u)
[ -z "$names" ] && exit 0
for n in $names; do
  for v in 0 1 2 6 64 30000 x; do
    out=$(env "$n=$v" VERIF_ENV_NOTE="$n=$v" "$bin" "$id" "$@" 2>&1); rc=$?
    if [ $rc -eq 1 ]; then
      echo "$out" | grep -E 'failing part|message:' | head -3
      echo "  (run with the environment variable $n=$v, a name read by the library's sources; set it to replay)"
      echo "$out" | grep '^VIOLATION' | head -1
      exit 1
    elif [ $rc -ne 0 ]; then
      echo "INCONCLUSIVE: property=$id the run with $n=$v ended with status $rc"; exit 2
    fi
  done
done
echo "environment dictionary: $(echo $names | tr '\n' ' ') x 7 values each - property $id held under all of them"
exit 0

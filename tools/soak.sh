#!/usr/bin/env bash
# Soak: every check's quick tier under several seeds, from a fresh process each; any non-zero exit is reported.
# usage: tools/soak.sh [seeds...]      (VERIF_DIR may point at a scratch copy so /verif/evidence is left alone)
cd "$(dirname "$0")/.." || exit 2
seeds=("$@"); [ ${#seeds[@]} -eq 0 ] && seeds=(1 2 3 4 5)
bad=0
for s in "${seeds[@]}"; do
  for p in C01 C02 C03 C04 C05 C06 C07 C08 C09 C10 C11 C12 C13 C14 C15 C16 C17 C18 C19 C20; do
    out=$(VERIF_SEED=$s ./check $p --tier quick 2>&1); rc=$?
    if [ $rc -ne 0 ]; then bad=1; echo "seed=$s $p rc=$rc"; echo "$out" | grep -v '^proptest' | tail -4; fi
  done
  echo "seed $s done"
done
[ $bad -eq 0 ] && echo "SOAK CLEAN" || echo "SOAK FOUND PROBLEMS"

#!/usr/bin/env bash
# For each sub-agent delivery /tmp/seed/out/<ID>/<A|B>: confirm it independently, copy it to /verif/seeded/<ID>-<A|B>/,
# run the target property's check and (if that misses) all other checks against it, and record the outcome.
# usage: tools/eval_seeds.sh C03/A C03/B ...
here="$(cd "$(dirname "$0")/.." && pwd)"
for x in "$@"; do
  id="${x%%/*}"; ab="${x##*/}"; src="${SEED_SRC:-/tmp/seed/out}/$x"; dst="$here/seeded/$id-$ab"
  echo "=== $x"
  conf=$("$here/tools/confirm_seed.sh" "$src" 2>&1 | tail -2)
  echo "$conf"
  if ! echo "$conf" | grep -q '^CONFIRMED'; then echo "  -> not kept"; continue; fi
  mkdir -p "$dst"; cp "$src/patch.diff" "$src/demo_test.rs" "$dst/"; [ -f "$src/notes.md" ] && cp "$src/notes.md" "$dst/"
  res=$("$here/tools/try_patch.sh" "$dst/patch.diff" "$id" 2>&1); echo "$res" | tail -3
  if echo "$res" | grep -q "CAUGHT BY: nobody" && [ "${EVAL_ALL:-1}" = 1 ]; then
     echo "  target check missed it; trying all checks"
     res2=$("$here/tools/try_patch.sh" "$dst/patch.diff" 2>&1); echo "$res2" | tail -4
     res="$res"$'\n'"--- all checks ---"$'\n'"$res2"
  fi
  { echo "$conf"; echo "$res"; } > "$dst/result.txt"
done

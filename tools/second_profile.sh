#!/usr/bin/env bash
# <ID> again under the profile WITHOUT debug assertions and overflow checks: "out of bounds panics" must not rest on
# a debug_assert!, and nothing may silently wrap. The evidence of the main run is kept and annotated.
here="$(cd "$(dirname "$0")/.." && pwd)"
id="$1"
export CARGO_NET_OFFLINE=true
base="${VERIF_DIR:-$here}"
if ! (cd "$here/harness" && cargo build --offline --profile wrap >/dev/null 2>&1); then echo "INCONCLUSIVE: property=$id wrap profile does not build"; exit 2; fi
mkdir -p "$base/out"; cp "$base/evidence/$id.json" "$base/out/$id.checked-profile.json" 2>/dev/null
out=$(VERIF_ONLY_PART= "$here/harness/target/wrap/flipdot-verif" "$id" --tier quick); rc=$?
echo "$out" | grep -v '^proptest' | sed 's/^/[profile without debug assertions] /'
python3 - "$id" "$rc" <<'PY'
import json, sys, os
id, rc = sys.argv[1], int(sys.argv[2])
base = os.environ.get("VERIF_DIR", "/verif")
try:
    w = json.load(open(os.path.join(base, "evidence", id + ".json")))
    e = json.load(open(os.path.join(base, "out", id + ".checked-profile.json")))
    e["coverage"]["second_profile_without_debug_assertions"] = {"exit_code": rc, "evaluations": w["coverage"]["evaluations"], "distinct_nontrivial": w["coverage"]["distinct_nontrivial"]}
    e["coverage"]["evaluations"] += w["coverage"]["evaluations"]
    if rc != 0:
        e["violations"] = max(e.get("violations", 0), w.get("violations", 1))
    json.dump(e, open(os.path.join(base, "evidence", id + ".json"), "w"), indent=2)
except Exception as ex:
    print("could not merge evidence:", ex)
PY
if [ $rc -ne 0 ]; then echo "$out" | grep '^VIOLATION'; fi
if [ $rc -ne 0 ] && [ $rc -ne 1 ] && [ $rc -ne 2 ]; then
  echo "INCONCLUSIVE: property=$id the run under the second build profile died with status $rc"
  exit 2
fi
exit $rc

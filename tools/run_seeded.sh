#!/usr/bin/env bash
# Regression run of the sub-agent-seeded changes: apply each /verif/seeded/<ID>-<X>/patch.diff to /repo, run the target
# property's quick check (for a few, the owning check named below), undo it, and report any that is no longer caught.
# usage: tools/run_seeded.sh [name-substring]
here="$(cd "$(dirname "$0")/.." && pwd)"
miss=0; n=0
for d in "$here"/seeded/*/; do
  name="$(basename "$d")"
  [ -n "${1:-}" ] && [[ "$name" != *"$1"* ]] && continue
  [ -n "${SEED_RANGE:-}" ] && ! [[ "$name" =~ $SEED_RANGE ]] && continue
  id="${name%%-*}"
  # changes whose fault lies outside what their nominal property observes: the owning check is the one that must catch them
  case "$name" in C01-C|C02-G|C02-H) id=C15;; C02-P) id=C16;; C19-G|C19-J|C13-N|C13-P) id=C14;; C13-J) id=C08;; C05-M) id=C01;; C05-N) id=C16;; C06-M) id=C07;; C07-N) id=C06;; C14-N) id=C17;; esac
  # C13-G violates no listed property (DESIGN 7.2 item 3): recorded, not expected to be caught
  # C18-J delays a hand-built Unknown message that wraps a type-0 (data chunk) frame: on the wire that IS a data chunk, so
  # the statement does not clearly forbid the pause and C18 does not assert its absence (DESIGN 7.4, fifth wave)
  # C05-K makes Frame::write hand the frame to the writer in two calls: no statement speaks about the number of write calls
  # C02-M only shows if the very first parsing call of the process is a function that does not exist on the unchanged tree
  # (a new public from_log_line): no harness written against the unchanged tree can make that call
  if [ "$name" = "C02-M" ]; then echo "skip $name (needs a call to an API that the unchanged tree does not have)"; continue; fi
  # C16-Q reads a reply for a hand-built Unknown message whose frame is byte-identical to a Hello / QueryState / RequestOperation:
  # on the wire that IS such a request, the statement does not clearly forbid the read (same ruling as C18-J)
  if [ "$name" = "C13-G" ] || [ "$name" = "C18-J" ] || [ "$name" = "C05-K" ] || [ "$name" = "C16-Q" ]; then echo "skip $name (violates no listed property as stated)"; continue; fi
  res=$("$here/tools/try_patch.sh" "$d/patch.diff" "$id" 2>&1 | tail -1)
  n=$((n+1))
  case "$res" in *"CAUGHT BY: $id"*) echo "ok   $name ($id)";; *) echo "MISS $name: $res"; miss=$((miss+1));; esac
done
echo "$n seeded changes, $miss not caught"
[ $miss -eq 0 ]

#!/usr/bin/env bash
# Regression run of the sub-agent-seeded changes: apply each /verif/seeded/<ID>-<X>/patch.diff to /repo, run the target
# property's quick check (for C01-C: C15), undo it, and report any that is no longer caught.
# usage: tools/run_seeded.sh [name-substring]
here="$(cd "$(dirname "$0")/.." && pwd)"
miss=0; n=0
for d in "$here"/seeded/*/; do
  name="$(basename "$d")"
  [ -n "${1:-}" ] && [[ "$name" != *"$1"* ]] && continue
  id="${name%%-*}"; [ "$name" = "C01-C" ] && id=C15
  res=$("$here/tools/try_patch.sh" "$d/patch.diff" "$id" 2>&1 | tail -1)
  n=$((n+1))
  case "$res" in *"CAUGHT BY: $id"*) echo "ok   $name ($id)";; *) echo "MISS $name: $res"; miss=$((miss+1));; esac
done
echo "$n seeded changes, $miss not caught"
[ $miss -eq 0 ]

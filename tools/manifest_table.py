# Data for gen_manifest.py (exec'd there).
NOTES = "Entry point: ./check <ID> --tier quick|thorough [--replay FILE]. Exit 0 held / 1 VIOLATION / 2 inconclusive (build error, watchdog). Runs are a pure function of (tree, VERIF_SEED, tier). Known findings and fixed defects: /verif/KNOWN_FINDINGS.txt. Design: /verif/DESIGN.md."
NOT_YET = {}
ENGINES_EXTRA = []

add("C01", "property-based round trip against an independent encoder + exhaustive sweeps (addresses, types, lengths)",
    "Generated-input search: every frame is encoded four ways (owned/borrowed x with/without CRLF) and compared byte for byte with an independent encoder written from the documented diagram, the wire-shape predicate is checked directly, and both encodings must decode to an equal frame; all addresses, all types and all lengths are swept exhaustively, contents are sampled (boundary biased). Data::try_new is driven over every length 0..=300 and sampled lengths up to 70000. No proof: contents beyond the sweeps are sampled.",
    "trusts oracle/hex.rs (independent encoder, unit-tested against the documented golden frames)", "DESIGN.md section 3 C01")

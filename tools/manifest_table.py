# Data for gen_manifest.py (exec'd there).
NOTES = "Entry point: ./check <ID> --tier quick|thorough [--replay FILE]. Exit 0 held / 1 VIOLATION / 2 inconclusive (build error, watchdog). Runs are a pure function of (tree, VERIF_SEED, tier). Known findings and fixed defects: /verif/KNOWN_FINDINGS.txt. Design: /verif/DESIGN.md."
NOT_YET = {}
ENGINES_EXTRA = []

add("C01", "property-based round trip against an independent encoder + exhaustive sweeps (addresses, types, lengths)",
    "Generated-input search: every frame is encoded four ways (owned/borrowed x with/without CRLF) and compared byte for byte with an independent encoder written from the documented diagram, the wire-shape predicate is checked directly, and both encodings must decode to an equal frame; all addresses, all types and all lengths are swept exhaustively, contents are sampled (boundary biased). Data::try_new is driven over every length 0..=300 and sampled lengths up to 70000. No proof: contents beyond the sweeps are sampled.",
    "trusts oracle/hex.rs (independent encoder, unit-tested against the documented golden frames)", "DESIGN.md section 3 C01")

add("C02", "exhaustive single-fault neighbourhood enumeration per generated frame + generated forgeries (fault injection on the wire text)",
    "For every generated valid frame the complete set of single-character faults named by the property (256-way substitution at every position, deletion, duplication, adjacent swap, every proper prefix; with and without CRLF) is enumerated and each mutant must be rejected or decode to the original; forged frames with a consistent shape but wrong length or checksum must be rejected. The fault set per frame is complete (structural alphabet for frames over 64 data bytes); frames are sampled.",
    "mutants are built from the harness's reference encoding; frames over 64 data bytes use a reduced substitution alphabet", "DESIGN.md section 3 C02")
add("C03", "differential testing against an independent byte-level parser: exhaustive short strings + grammar-based generation with generator-health check",
    "Every explored byte string is decoded by flipdot and by an independent hand-written Intel-HEX parser; they must agree on accept/reject, on the error class with the stated precedence, on the reported counts/checksums, and accepted strings must re-encode to themselves up to case/terminator. All strings up to length 4 (5 thorough) over a 28-symbol structural alphabet, all 4^10 minimal frames x 9 terminators and all 3^12 one-byte frames are enumerated; longer inputs come from a grammar-based generator with byte edits whose class balance is measured on every run (exit 2 if a class starves).",
    "trusts the reference parser; strings longer than the exhaustive bound are sampled", "DESIGN.md section 3 C03")

add("C04", "exhaustive enumeration of the frame domain named by the property against a frozen protocol table + table-free duality (inverse-table) oracle",
    "Every frame in the stated finite domain (256 types x 256 first bytes x 6 lengths x 6 addresses; 65536 addresses x every recognised code; owned and borrowed) is converted Frame->Message->Frame and must come back equal, must be classified exactly as a frozen copy of the protocol table says (kind, carried address, state/operation, data; else Unknown wrapping the same frame), and must be recognised as m exactly when Frame::from(m) equals it (checked against all 32 candidate messages, so the result does not hinge on my transcription). Generated frames with arbitrary data extend it beyond the enumerated lengths.",
    "frozen table oracle/table.rs; data bytes beyond the first are patterns/sampled", "DESIGN.md section 3 C04")
add("C05", "exhaustive + property-based wire round trip of every constructible message, with pairwise injectivity",
    "All addressed message kinds at all 65536 addresses (13 states, 6+6 operations), all 65536 chunk counts and data chunks of every length 0..=255 (contents and offsets generated) go Message->Frame->text->Frame->Message, with and without CRLF, owned and borrowed, and must come back equal in kind, numbers and bytes; encodings are checked pairwise distinct per address and on generated near-collision pairs of data chunks.",
    "data-chunk contents are sampled; equality is checked on both Message's PartialEq and the harness's mirror type", "DESIGN.md section 3 C05")

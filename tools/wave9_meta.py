import json,os,re,sys
D={
'C02-P':("SerialSignBus keeps the last decoded reply and returns it again when the next line starts_with its text","an earlier reply P on the same bus, then a longer frame that begins like P, damaged in its length digit"),
'C02-Q':("branch-free parse_hex: a lower-case letter in a non-leading digit leaks 0x20 into the nibble above","lower-case wire text and a fault that shifts the byte sum by the compensating amount"),
'C03-P':("frame regex classes [[:xdigit:]] become [\\da-fA-F] with Unicode mode on: non-ASCII decimal digits pass the shape check and panic in parse_hex","a complete UTF-8 encoding of a non-ASCII digit in a hex position of an otherwise well-formed line"),
'C03-Q':("checksum summed into a u16: overflow panic (checked builds)","a well-formed line of >= 253 data bytes, nearly all 0xFF, with a heavy header"),
'C04-P':("Frame::into_data replaces 'blank' owned data by a static zero block; the blank test reads whole 8-byte words and forgets the remainder","type 0, owned data, length >= 8 and not a multiple of 8, all whole leading words zero, a non-zero byte in the tail"),
'C04-Q':("type-5 frames with two data bytes [ack code, matching request code] are accepted as AckOperation","exactly the six matching (ack, request) pairs as the two data bytes"),
'C05-P':("decoder verifies the checksum by summing the parsed fields in a u16: overflow panic (checked builds) on the library's own encoding","SendData with 255 bytes of (almost) all 0xFF and offset bytes summing to >= 256"),
'C05-Q':("Frame::write passes frame and CRLF as two slices to one write_vectored call and ignores the count","a writer without native write_vectored and two or more frames on one stream"),
'C06-P':("byte index of a pixel computed through the protocol's Offset(u16): truncated","page data larger than 64 KiB and a coordinate whose byte index is >= 65536"),
'C06-Q':("set_pixel fast path on borrowed pages tests (column_bits(x) >> y) & 1 with a u64","a page over borrowed bytes, taller than 64 rows, not yet written, row >= 64"),
'C07-P':("set_pixel / set_all_pixels take the buffer out with mem::take and run a closure; the out-of-bounds panic drops the detached buffer","an out-of-bounds set_pixel whose panic is caught, and the same page used afterwards"),
'C07-Q':("bytes_per_column = (height as f32 / 8.0).ceil()","height above 2^24 and congruent to 1 modulo 8"),
'C08-P':("VirtualSignBus offers unaddressed data only to the first sign that is receiving","a second sign left mid-transfer by earlier traffic and listed before the target"),
'C08-Q':("Sign remembers a digest of the page list it sent last and skips the transfer when asked for the same list while the sign reports PageLoaded / ShowingPages","the same Sign object sends the same list twice, foreign traffic replaced the pages in between"),
'C09-P':("the re-request after a failure report accepts any AckOperation","a failed first attempt and a mismatching ack on the re-issued request"),
'C09-Q':("chunk counter kept in a Cell on Sign, incremented per accepted SendData, cleared when announced, never reset at the start of a transfer","an earlier call on the same Sign aborted inside the data phase, then another transfer"),
'C10-P':("page and chunk loops flattened; chunks-per-item taken from the first item only, offsets from the running counter modulo it","several pages of different byte lengths in one send"),
'C10-Q':("every bus response is passed through Message::from(Frame::from(m)) ('canonical form')","a reply of kind Unknown whose raw frame is exactly the expected report / ack"),
'C11-P':("Sign caches the last own-address state; the final check of a transfer reads the cache instead of the reply","an earlier send whose trailing query got no own report (cache left at PixelsReceived), then a send whose concluding query gets a foreign / missing report"),
'C11-Q':("bus errors that already are a SignError are returned unchanged instead of wrapped in Bus","the bus fails with a boxed SignError::UnexpectedResponse"),
'C12-P':("stale 'loaded page' index kept across a new pixel transfer","manual flipping through >= 2 pages, then a second transfer of fewer pages, then ShowLoadedPage: index out of bounds"),
'C12-Q':("u8 subtraction of consecutive page ids in flush_pixels","two complete pages in one transfer, the later with a numerically smaller first byte (checked builds)"),
'C13-P':("VirtualSignBus gives SendData / DataChunksSent only to the sign that acked a receive request last","two signs on one bus receiving at the same time"),
'C13-Q':("Max3000 panel widths summed up to the first zero byte (take_while)","a custom Max3000 configuration with a zero slot before a non-zero one, then a page of the true size"),
'C14-P':("bus routing table keyed on address % 256","two signs sharing the low address byte, one above 0xFF, the message addressed to the earlier one"),
'C14-Q':("Hello / QueryState address check moved behind the 'finish pending load/show' side effect","a manual-flip sign in PageShowInProgress / PageLoadInProgress and a poll for a different address that reaches it"),
'C15-P':("Frame::write offers [body, CRLF] to write_vectored, then finishes with write_all blocks that ignore a half-written terminator","a sink with native write_vectored whose first call stops between CR and LF"),
'C15-Q':("Frame::read returns the frame gathered so far when read_until fails with TimedOut and the bytes already form a valid frame","a TimedOut failure exactly at the call that would have delivered the CR"),
'C16-P':("SerialSignBus caches the wire bytes of the last frame under the key (address, type, data length, data checksum)","two consecutive messages on one bus with equal address, type, length and byte sum but different bytes"),
'C16-Q':("reply / delay decision taken on Message::from(frame) after the frame is written","a hand-built Message::Unknown whose frame is byte-identical to a Hello / QueryState / RequestOperation encoding: a reply line is read for it"),
'C17-P':("Odk keeps a 64-byte read-ahead buffer and clears it when a line cannot be decoded","an undecodable line with a valid frame already queued behind it in the same read burst"),
'C17-Q':("Frame::write sends the terminator with write() instead of write_all()","a short-writing stream whose boundary falls between CR and LF"),
'C18-P':("a reply with a bad checksum is retried; the retry path reads the next reply without the in-progress pause","a garbled first reply followed by an in-progress report"),
'C18-Q':("no pause when an in-progress report names a different sign than the QueryState polled","QueryState(X) answered by an in-progress report from Y != X"),
'C19-P':("virtual sign remembers (family, id) of the last configuration block and does not re-parse a block with the same two bytes","a failed configuration with the same id and other geometry, then the canonical block without a reset"),
'C19-Q':("config_geometry helper prefers the dimensions of self.sign_type, called before the new type is assigned","a failed transfer of type X's block, then type Y's block without a reset"),
'C20-P':("SerialSignBus::try_new retries configure_port three times on Io(Interrupted) and falls through to Ok","a port whose configuration keeps failing with Interrupted"),
'C20-Q':("configure_port retries a set_timeout refused with InvalidInput using timeout.min(i32::MAX ms)","a direct call with a timeout above ~24.8 days and a one-shot InvalidInput at set_timeout"),
}
logs=open('/tmp/seed/try9a.log').read()+ (open('/tmp/seed/try9b.log').read() if os.path.exists('/tmp/seed/try9b.log') else '')
extra=json.load(open('/verif/tools/wave9_meta_extra.json')) if os.path.exists('/tmp/seed/extra9.json') else {}
for name,(chg,needs) in D.items():
    dst=f'/verif/seeded/{name}'
    if not os.path.isdir(dst): continue
    id=name[:3]
    m=re.search(r'^'+name+r':(.*)$',logs,re.M)
    if not m: continue
    line=m.group(1)
    first=('CAUGHT BY: '+id) in line
    part=re.search(r'failing part: (\S+)',line)
    meta={"wave":9,"breaks_property":id,"change":chg,"needs_to_manifest":needs,
      "written_by":"independent sub-agent given only the property text, a one-line description of the wave-8 change for that property and a scratch worktree of /repo (nothing from /verif); asked for changes that need a conjunction of at least two independent unusual conditions (tools/seed_prompt_template_wave9.txt)",
      "confirmed":"tools/eval_wave.sh confirm (tools/confirm_seed.sh in its own scratch worktree): suite passes with the change, demo fails with it, passes without it",
      "checks_run":f"tools/eval_wave.sh try {name} = tools/try_patch.sh <patch> {id} against the harness as committed before the wave",
      "caught_by_target_check_at_first_try":first,
      "caught_by_at_first_try": id if first else "nobody",
      "failing_part_at_first_try": part.group(1) if (first and part) else None}
    meta.update(extra.get(name,{}))
    if first: meta["caught_by_target_check_now"]=True
    json.dump(meta,open(dst+'/meta.json','w'),indent=1)
    print(name, first)

#!/usr/bin/env python3
"""Validate MANIFEST.json and every evidence file against the schemas (run with python3-vt)."""
import json, glob, sys, jsonschema
ok = True
def v(path, schema):
    global ok
    try:
        jsonschema.validate(json.load(open(path)), json.load(open(schema)))
    except Exception as e:
        ok = False
        print("INVALID", path, str(e)[:300])
v('/verif/MANIFEST.json', '/root/.vp/MANIFEST.schema.json')
for f in sorted(glob.glob('/verif/evidence/*.json')):
    v(f, '/root/.vp/EVIDENCE.schema.json')
m = json.load(open('/verif/MANIFEST.json'))
ids = [c['property_id'] for c in m['checks']] + [n['property_id'] for n in m.get('not_applicable', [])]
props = [json.loads(l)['id'] for l in open('/verif/properties.jsonl')]
if sorted(ids) != sorted(props):
    ok = False
    print("manifest does not cover every property exactly once")
print("valid" if ok else "PROBLEMS")
sys.exit(0 if ok else 1)

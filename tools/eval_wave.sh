#!/usr/bin/env bash
# Evaluate one sub-agent delivery (waves 8 and later).
#   tools/eval_wave.sh confirm <delivery dir> <ID-LETTER>     confirm it in its own scratch worktree (parallel-safe), copy to seeded/<ID-LETTER>
#   tools/eval_wave.sh try <ID-LETTER> [check IDs]            run the target check (or the given checks) against it on /repo (serial only)
here="$(cd "$(dirname "$0")/.." && pwd)"
mode="$1"; shift
case "$mode" in
confirm)
  src="$1"; name="$2"; dst="$here/seeded/$name"
  conf=$(CONFIRM_WT="/tmp/seedcheck/wt-$name" "$here/tools/confirm_seed.sh" "$src" 2>&1 | tail -2)
  echo "$name: $conf" | tr '\n' ' '; echo
  if echo "$conf" | grep -q '^CONFIRMED'; then
    mkdir -p "$dst"; cp "$src/patch.diff" "$src/demo_test.rs" "$dst/"; [ -f "$src/notes.md" ] && cp "$src/notes.md" "$dst/"
    echo "$conf" > "$dst/result.txt"
  fi
  git -C /repo worktree remove --force "/tmp/seedcheck/wt-$name" 2>/dev/null; rm -rf "/tmp/seedcheck/wt-$name"
  ;;
try)
  name="$1"; shift; dst="$here/seeded/$name"; id="${name%%-*}"
  ids=("$@"); [ ${#ids[@]} -eq 0 ] && ids=("$id")
  res=$("$here/tools/try_patch.sh" "$dst/patch.diff" "${ids[@]}" 2>&1); echo "$name: $(echo "$res" | tail -2 | tr '\n' ' ')"
  { echo "--- checks ${ids[*]} ---"; echo "$res"; } >> "$dst/result.txt"
  ;;
esac

#!/usr/bin/env python3
"""Regenerates /verif/MANIFEST.json from the table below (so the file stays valid and consistent)."""
import json, os, sys

HERE = os.path.dirname(os.path.dirname(os.path.abspath(__file__)))

# id -> (technique, level text, level note, design ref)
CHECKS = {}

def add(id, technique, text, note, ref):
    CHECKS[id] = dict(technique=technique, text=text, note=note, ref=ref)

exec(open(os.path.join(HERE, "tools", "manifest_table.py")).read())

props = [json.loads(l) for l in open(os.path.join(HERE, "properties.jsonl"))]
checks = []
na = []
for p in props:
    id = p["id"]
    if id in CHECKS:
        c = CHECKS[id]
        checks.append({
            "property_id": id,
            "quick_cmd": f"./check {id} --tier quick",
            "thorough_cmd": f"./check {id} --tier thorough",
            "evidence_file": f"/verif/evidence/{id}.json",
            "replay_cmd_template": f"./check {id} --replay {{path}}",
            "engine": "flipdot-verif",
            "level_claimed": {"category": "exploration", "text": c["text"], "design_ref": c["ref"]},
            "level_note": c["note"],
            "technique": c["technique"],
        })
    else:
        na.append({"property_id": id, "reason": NOT_YET.get(id, "check not built yet (work in progress; see DESIGN.md section 3 for the plan)")})

manifest = {
    "version": 1,
    "setup_cmd": "cd /verif/harness && CARGO_NET_OFFLINE=true cargo build --offline --release && CARGO_NET_OFFLINE=true cargo build --offline --profile wrap",
    "hooks": {
        "guard": "flipdot_verif (reserved, unused: no source hooks are needed)",
        "enable": "none - the harness links /repo's crates through path dependencies and observes them only through public API and the I/O traits",
        "baseline_off_cmd": "cd /repo && cargo test --workspace --no-fail-fast --offline",
        "source_commits": [],
        "add_only": True,
    },
    "engines": [
        {
            "name": "flipdot-verif",
            "path": "/verif/harness",
            "serves_properties": sorted(CHECKS.keys()),
            "kind_free_text": "proptest 1.11 driven from a binary (seeded, 16 workers, shrinking, JSON replay files), exhaustive generators for the finite domains, systematic re-execution and implementation-state graph search for histories; independent reference models as oracles",
        },
    ] + ENGINES_EXTRA,
    "checks": checks,
    "not_applicable": na,
    "notes": NOTES,
}
json.dump(manifest, open(os.path.join(HERE, "MANIFEST.json"), "w"), indent=1)
print("wrote MANIFEST.json:", len(checks), "checks,", len(na), "not_applicable")

#!/usr/bin/env bash
# Confirm a sub-agent's seeded change independently in a scratch worktree:
#   suite passes with the change, demo fails with it, demo passes without it.
# usage: tools/confirm_seed.sh <dir with patch.diff and demo_test.rs>      (scratch worktree: $CONFIRM_WT, default /tmp/seedcheck/wt)
d="$1"; wt="${CONFIRM_WT:-/tmp/seedcheck/wt}"
if [ ! -d "$wt" ]; then mkdir -p "$(dirname "$wt")"; git -C /repo worktree add --detach "$wt" HEAD >/dev/null 2>&1 || exit 2; fi
cd "$wt" || exit 2
git checkout -q --detach "$(git -C /repo rev-parse HEAD)" 2>/dev/null
git checkout -- . ; rm -f tests/demo_test.rs
demo="$d/demo_test.rs"
[ -f "$demo" ] || { echo "no demo_test.rs in $d"; ls "$d"; exit 2; }
git apply "$d/patch.diff" || { echo "PATCH DOES NOT APPLY"; exit 2; }
suite=$(cargo test --workspace --no-fail-fast --offline 2>&1)
if echo "$suite" | grep -qE 'test result: FAILED|^error(\[|:)'; then echo "SUITE FAILS WITH CHANGE"; echo "$suite" | grep -E 'FAILED|^error' | head -5; sfail=1; else sfail=0; fi
cp "$demo" tests/demo_test.rs
with=$(cargo test --offline --test demo_test 2>&1); with_rc=$?
git checkout -- . 
without=$(cargo test --offline --test demo_test 2>&1); without_rc=$?
rm -f tests/demo_test.rs
echo "suite_with_change=$([ $sfail -eq 0 ] && echo pass || echo FAIL) demo_with_change=$([ $with_rc -ne 0 ] && echo fails || echo PASSES) demo_without_change=$([ $without_rc -eq 0 ] && echo passes || echo FAILS)"
[ $sfail -eq 0 ] && [ $with_rc -ne 0 ] && [ $without_rc -eq 0 ] && echo CONFIRMED || { echo NOT-CONFIRMED; echo "$without" | tail -5; }

#!/usr/bin/env bash
# Wave 8 (one change per property, letter O): deliveries in /tmp/seed/out8/<ID>/.
#   tools/eval_wave8.sh confirm C03      confirm the delivery in its own scratch worktree (parallel-safe), copy to seeded/C03-O
#   tools/eval_wave8.sh try C03 [IDs]    run the target check (or the given checks) against it on /repo (serial only)
here="$(cd "$(dirname "$0")/.." && pwd)"
mode="$1"; id="$2"; shift 2
src="/tmp/seed/out8/$id"; dst="$here/seeded/$id-O"
case "$mode" in
confirm)
  conf=$(CONFIRM_WT="/tmp/seedcheck/wt-$id" "$here/tools/confirm_seed.sh" "$src" 2>&1 | tail -2)
  echo "$id: $conf" | tr '\n' ' '; echo
  if echo "$conf" | grep -q '^CONFIRMED'; then
    mkdir -p "$dst"; cp "$src/patch.diff" "$src/demo_test.rs" "$dst/"; [ -f "$src/notes.md" ] && cp "$src/notes.md" "$dst/"
    echo "$conf" > "$dst/result.txt"
  fi
  git -C /repo worktree remove --force "/tmp/seedcheck/wt-$id" 2>/dev/null; rm -rf "/tmp/seedcheck/wt-$id"
  ;;
try)
  ids=("$@"); [ ${#ids[@]} -eq 0 ] && ids=("$id")
  res=$("$here/tools/try_patch.sh" "$dst/patch.diff" "${ids[@]}" 2>&1); echo "$id-O: $(echo "$res" | tail -2 | tr '\n' ' ')"
  { echo "--- checks ${ids[*]} ---"; echo "$res"; } >> "$dst/result.txt"
  ;;
esac

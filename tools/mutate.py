#!/usr/bin/env python3
"""Sensitivity testing: apply each hand-written mutant (one textual replacement in /repo) in turn,
run the named checks in the quick tier, restore /repo (git checkout), and record which checks fail.

usage: tools/mutate.py [--only NAME_SUBSTR] [--prop Cxx] [--suite]   (table: /verif/mutants/table.py)
A mutant is (name, file, old, new, [checks expected to catch it]).  `old` must occur exactly once.
--suite additionally runs the repository's own test suite on the mutant (to confirm it survives it).
"""
import subprocess, sys, os, json, time

REPO = "/repo"
HERE = os.path.dirname(os.path.dirname(os.path.abspath(__file__)))
MUTANTS = []
def M(name, file, old, new, checks, count=1):
    MUTANTS.append(dict(name=name, file=file, old=old, new=new, checks=checks, count=count))
exec(open(os.path.join(HERE, "mutants", "table.py")).read())

def sh(cmd, cwd=None, timeout=1800):
    p = subprocess.run(cmd, shell=True, cwd=cwd, stdout=subprocess.PIPE, stderr=subprocess.STDOUT, text=True, timeout=timeout)
    return p.returncode, p.stdout

def clean():
    rc, out = sh("git status --porcelain", cwd=REPO)
    return out.strip() == ""

def main():
    only = None; prop = None; suite = False
    a = sys.argv[1:]
    while a:
        x = a.pop(0)
        if x == "--only": only = a.pop(0)
        elif x == "--prop": prop = a.pop(0)
        elif x == "--suite": suite = True
    if not clean():
        print("/repo is not clean; refusing"); sys.exit(2)
    results = []
    # evidence files are rewritten by every check run: keep the clean-tree ones
    sh(f"rm -rf {HERE}/out/evidence.bak && mkdir -p {HERE}/out && cp -r {HERE}/evidence {HERE}/out/evidence.bak")
    for m in MUTANTS:
        if only and only not in m["name"]: continue
        if prop and prop not in m["checks"]: continue
        path = os.path.join(REPO, m["file"])
        src = open(path).read()
        if src.count(m["old"]) != m["count"]:
            print(f"SKIP {m['name']}: pattern occurs {src.count(m['old'])} times"); results.append((m["name"], "pattern-miss", {})); continue
        try:
            open(path, "w").write(src.replace(m["old"], m["new"]))
            res = {}
            if suite:
                rc, out = sh("cargo test --workspace --no-fail-fast --offline 2>&1 | grep -E '^test result|FAILED|error' | head -20", cwd=REPO)
                res["suite"] = "FAILS" if ("FAILED" in out or "error" in out) else "passes"
            for c in m["checks"]:
                t = time.time()
                rc, out = sh(f"./check {c} --tier quick", cwd=HERE)
                msg = [l for l in out.splitlines() if "message:" in l or l.startswith("INCONCLUSIVE")]
                res[c] = dict(rc=rc, s=round(time.time() - t, 1), msg=(msg[0][:230] if msg else ""))
            results.append((m["name"], "ran", res))
            caught = [c for c in m["checks"] if res[c]["rc"] == 1]
            print(f"{'CAUGHT' if caught else 'MISSED'} {m['name']}: " + ", ".join(f"{c}=rc{res[c]['rc']}({res[c]['s']}s)" for c in m["checks"]) + (f" suite={res.get('suite')}" if suite else ""))
            for c in m["checks"]:
                if res[c]["msg"]: print("     ", c, res[c]["msg"])
        finally:
            sh("git checkout -- .", cwd=REPO)
    sh(f"rm -rf {HERE}/evidence && mv {HERE}/out/evidence.bak {HERE}/evidence")
    if not clean():
        print("WARNING: /repo not clean after run")
    json.dump(results, open(os.path.join(HERE, "out", "mutate_last.json"), "w"), indent=1)
    # cumulative, committed record: name -> {check: exit code}
    rp = os.path.join(HERE, "mutants", "RESULTS.json")
    try:
        allres = json.load(open(rp))
    except Exception:
        allres = {}
    for name, status, res in results:
        if status == "ran":
            allres[name] = {c: v["rc"] for c, v in res.items() if isinstance(v, dict)}
        else:
            allres[name] = {"status": status}
    json.dump(allres, open(rp, "w"), indent=1, sort_keys=True)

main()

#!/usr/bin/env bash
# Apply a patch to /repo, run the given checks (default: all) in the quick tier, undo the patch.
# usage: tools/try_patch.sh <patch.diff> [--suite] [--tier quick|thorough] [ID...]
here="$(cd "$(dirname "$0")/.." && pwd)"
patch="$1"; shift
suite=0; tier=quick; ids=()
while [ $# -gt 0 ]; do case "$1" in --suite) suite=1;; --tier) shift; tier="$1";; *) ids+=("$1");; esac; shift; done
[ ${#ids[@]} -eq 0 ] && ids=(C01 C02 C03 C04 C05 C06 C07 C08 C09 C10 C11 C12 C13 C14 C15 C16 C17 C18 C19 C20)
if [ -n "$(git -C /repo status --porcelain)" ]; then echo "/repo not clean"; exit 2; fi
rm -rf "$here/out/evidence.bak"; cp -r "$here/evidence" "$here/out/evidence.bak"
git -C /repo apply "$patch" || { echo "patch does not apply"; exit 2; }
trap 'git -C /repo checkout -- . ; git -C /repo clean -fdq -- tests src libs 2>/dev/null; rm -rf "$here/evidence"; mv "$here/out/evidence.bak" "$here/evidence"' EXIT
if [ $suite -eq 1 ]; then
  (cd /repo && cargo test --workspace --no-fail-fast --offline 2>&1 | grep -E '^test result|FAILED|^error' | sort | uniq -c | sed 's/^/  suite: /')
fi
caught=()
for id in "${ids[@]}"; do
  out=$("$here/check" "$id" --tier "$tier" 2>&1); rc=$?
  if [ $rc -eq 1 ]; then caught+=("$id"); echo "  $id rc=1: $(echo "$out" | grep 'message:' | head -1 | cut -c1-260)"; 
  elif [ $rc -ne 0 ]; then echo "  $id rc=$rc: $(echo "$out" | grep -E 'INCONCLUSIVE|error' | head -2)"; fi
done
echo "CAUGHT BY: ${caught[*]:-nobody}"

#!/usr/bin/env bash
# Coverage-guided campaign (libFuzzer via cargo-fuzz) with the semantic oracle inside the target.
# usage: tools/fuzz_run.sh <property-id> <target> <total-runs> <max-len> [procs]
# exit 0 no violation / 1 VIOLATION line printed / 2 inconclusive (build failure, crash without a verdict)
here="$(cd "$(dirname "$0")/.." && pwd)"
id="$1"; target="$2"; runs="$3"; maxlen="$4"; procs="${5:-8}"
export CARGO_NET_OFFLINE=true
seed=$(( ${VERIF_SEED:-0} + 1 ))
log="$(mktemp)"
if ! cargo +nightly fuzz build --fuzz-dir "$here/fuzz" -s none "$target" >"$log" 2>&1; then
  echo "INCONCLUSIVE: property=$id fuzz target $target does not build"; grep -E '^error' -A8 "$log" | head -30; rm -f "$log"; exit 2
fi
rm -f "$log"
base="${VERIF_DIR:-$here}/out/fuzz/$target.$$"
mkdir -p "$base"
per=$(( runs / procs ))
pids=()
start=$(date +%s)
for i in $(seq 1 "$procs"); do
  c="$base/corpus$i"; mkdir -p "$c" "$base/art$i"
  [ -d "$here/fuzz/seeds/$target" ] && cp "$here/fuzz/seeds/$target"/* "$c/" 2>/dev/null
  ( cd "$base" && cargo +nightly fuzz run --fuzz-dir "$here/fuzz" -s none "$target" "$c" -- \
      -runs="$per" -seed=$(( seed * 100 + i )) -len_control=0 -max_len="$maxlen" -artifact_prefix="$base/art$i/" -print_final_stats=1 \
      > "$base/log$i" 2>&1 ) &
  pids+=($!)
done
rc=0
for p in "${pids[@]}"; do wait "$p" || true; done
end=$(date +%s)
viol=$(cat "$base"/log* | grep -h '^VIOLATION' | sort -u)
execs=$(cat "$base"/log* | grep -h 'stat::number_of_executed_units' | awk '{s+=$2} END {print s+0}')
units=$(ls "$base"/corpus* 2>/dev/null | wc -l)
crashed=$(cat "$base"/log* | grep -c 'ERROR: libFuzzer' )
echo "fuzz target=$target procs=$procs executions=$execs corpus_units=$units wall_s=$((end-start)) seed=$seed"
# record the campaign in the evidence file written by the main run
python3 - "$id" "$target" "$execs" "$units" "$((end-start))" "$seed" "$maxlen" <<'PY'
import json, sys, os
id, target, execs, units, wall, seed, maxlen = sys.argv[1:8]
p = os.path.join(os.environ.get("VERIF_DIR", "/verif"), "evidence", id + ".json")
try:
    e = json.load(open(p))
    e["coverage"].setdefault("fuzz_campaigns", []).append({"engine": "libFuzzer (cargo-fuzz, -s none)", "target": target, "executions": int(execs), "corpus_units": int(units), "wall_s": int(wall), "libfuzzer_seed_base": int(seed), "max_len": int(maxlen), "oracle": "inside the target (same check function as the harness)"})
    e["coverage"]["evaluations"] += int(execs)
    json.dump(e, open(p, "w"), indent=2)
except Exception as ex:
    print("could not update evidence:", ex)
PY
if [ -n "$viol" ]; then
  cat "$base"/log* | grep -h -B1 '^VIOLATION' | grep -v '^--' | sort -u | head -6
  exit 1
fi
if [ "$crashed" -gt 0 ]; then
  echo "INCONCLUSIVE: property=$id fuzz target $target stopped without a verdict (see $base)"; cat "$base"/log* | grep -h 'ERROR: libFuzzer' | head -3; exit 2
fi
rm -rf "$base"
exit 0
